"""C11 — compute_features_2d(axis=0) / BycycleGroup.fit place the analysis of row i at position i, for every
completion order, n_jobs and progress setting.  Model/Group.v (group2d_axis0 over an order-preserving pool)."""
import numpy as np
from harness import grouplib as gl
from harness.core import exc_kind
from harness.grouplib import COQ_HEADER, COQ_RUNNER, COQ_TYPES, SHARD, COQ_STREAMS

PROP = 'C11'
PROPS_FILE = 'Props/C11.v'
PARALLEL = False
RULE = ('real compute_features_2d(axis=0) / BycycleGroup.fit on 1-7 pairwise different signals; option argument not given / None '
        '(default options), a shared dict, or a per-row list of pairwise different option sets (a one-element list for a '
        'one-row array), some dicts carrying a "return_samples" entry (documented as ignored); every n_jobs from 1 to rows+3 '
        'and -1 (so that rows are not a multiple of the job count); progress in {None, "tqdm", "tqdm.notebook"} with an '
        'in-process stand-in for the tqdm modules (not installed here) so that the real wrapper branch runs; return_samples '
        'both; the worker is wrapped (before the fork) to sleep so that earlier rows finish later (reverse / first-slow / '
        'zigzag schedules) and to log its completion; every returned table is matched against the tables of all '
        '(option set, row) pairs computed directly, giving a placement vector compared with the model, which is evaluated '
        'on the OBSERVED completion order; option dictionaries (and their nested dictionaries) are passed with a shuffled '
        'insertion order; through the object, about 60 % of the cases (and a dedicated block) first fit the SAME '
        'BycycleGroup on 1-2 decoy arrays of another shape (more / fewer rows, 3-D arrays along any axis) with other '
        'signals, and after the judged fit len(bg), bg.models, bg[i], iteration and df_features must have exactly the '
        'judged array\'s rows, every model holding the table (by value) and the signal of its own row; in about two '
        'thirds of these histories the user RE-ASSIGNS settings attributes of the object between the fits (and sometimes '
        'before the first one): center_extrema, burst_method together with thresholds, thresholds = a new dict, '
        'burst_kwargs, find_extrema_kwargs, return_samples - all of them or a subset, values taken from another option '
        'set of the pool; the candidates then hold the tables of every row under EVERY option set the object held '
        'during the history, and position i must hold the table of row i under the settings in force when the judged '
        'fit was called; the history (fits and assignments) is evaluated by the model of the object (second Coq stream); '
        'the small option space is a COVERING ARRAY, not independent draws (block "cover"): entry point and option form '
        '(function + dict / per-row list / no option argument, object + given settings / default settings) x {one row, several '
        'rows} x return_samples {True, False} x {no progress bar, a tqdm bar} x {n_jobs = 1, several jobs}: all 80 cells on a '
        'fresh object / a plain call in every run (x 3 in thorough; evidence: option_space_cells_covered); the reference of '
        'every cell is compute_features of the row with the same return_samples, column set included; '
        'non-trivial = >= 3 rows and a perturbed schedule or a per-row list')
ASSUMPTIONS = ['the statement about BycycleGroup.fit is applied to every call of fit, also on an object that was fitted before on '
               'arrays of another shape (the property does not restrict it to fresh objects); position-wise access is read as '
               'bg.models, bg[i] (bg[i][j]), len(bg) and iteration, compared by value',
               '"the options given for row i" of a BycycleGroup are the values its settings attributes hold when fit is called '
               '(the constructor\'s, or what the user assigned to the attribute since); every assignment block leaves a valid '
               'combination (a change of burst_method comes with matching thresholds)',
               'the multiprocessing runtime is exercised only under the injected schedules; the theorem covers all permutations '
               'of completion order for the reorder-buffer model of Pool.imap',
               'the progress wrapper is exercised with a stand-in tqdm (iterates the wrapped iterable unchanged, as tqdm does); '
               'the real tqdm package is outside the check']
TRUST = ['Pool.imap is modelled as a reorder buffer keyed by submission index']
COVER = {}          # cell of the option space -> number of cases run in it
PROGRESS = {'cases_with_progress': 0, 'stub_wrapped_the_result_iterator': 0, 'stub_total_equals_rows': 0,
            'stub_items_pulled_equals_rows': 0, 'by_module': {}}


def _mode(c):
    if 'kwmode' in c:
        return c['kwmode']
    return 'list' if c.get('kw') is not None else 'dict'


def _case(rng, rows, kwmode, via=None, refit=False, return_samples=None):
    kw = rng.sample(range(len(gl.KW_POOL)), rows) if kwmode == 'list' else None
    if via is None:
        via = 'func' if kwmode == 'list' else rng.choice(['func', 'func', 'group'])
    # a 'return_samples' entry inside option dicts: None = absent, else its value (documented: ignored)
    n_entries = rows if kwmode == 'list' else (1 if kwmode == 'dict' else 0)
    drawn = rng.random() < 0.7
    return_samples = drawn if return_samples is None else return_samples
    rs_key = [(rng.choice([not return_samples, not return_samples, return_samples]) if rng.random() < 0.35 else None)
              for _ in range(n_entries)]
    if via == 'group':
        rs_key = [None] * n_entries
    shared = rng.randrange(len(gl.KW_POOL))
    history = (gl.gen_history(rng, (rows,), kwmode, shared, return_samples, force=refit and rng.random() < 0.5)
               if via == 'group' and kwmode != 'list' and (refit or rng.random() < 0.6) else [])
    return {'kind': 'g2d/' + kwmode, 'rows': rows, 'history': history, 'kseed': rng.randrange(10 ** 6), 'sig_ids': rng.sample(range(40), rows), 'kwmode': kwmode,
            'kw': kw, 'shared': shared, 'rs_key': rs_key,
            'omit_arg': kwmode == 'none' and rng.random() < 0.5,
            'n_jobs': rng.choice([1, 2, 3, 4, max(1, rows - 1), max(1, rows - 2), rows, rows + 3, -1]),
            'progress': rng.choice([None, None, 'tqdm', 'tqdm.notebook']),
            'schedule': rng.choice(['reverse', 'first_slow', 'zigzag', 'none']),
            'return_samples': return_samples, 'layout': rng.choice(['C', 'C', 'F', 'view']), 'via': via}


ENTRIES = [('dict', 'func'), ('list', 'func'), ('none', 'func'), ('dict', 'group'), ('none', 'group')]


def _jobs_class(c):
    return 'one' if c['n_jobs'] == 1 else 'several'


def cover_key(c):
    """Cell of the small option space a case falls into: (entry point + option form, one row / several rows,
    return_samples, progress bar or not, one job / several jobs)."""
    mode = _mode(c)
    via = 'func' if mode == 'list' else c['via']
    return (via + '/' + mode, 'one-row' if c['rows'] == 1 else 'rows', bool(c['return_samples']),
            'bar' if c.get('progress') else 'nobar', _jobs_class(c))


def _cover(rng, tier):
    """The small option space as a covering array instead of independent draws: entry point and option form (5) x
    {one row, several rows} x return_samples x {no progress bar, a tqdm bar} x {n_jobs = 1, several jobs} - the full
    product (80 cells), every cell on a FRESH object / a plain function call; everything else (signals, option sets,
    schedule, layout, the exact job count and bar module) drawn as in the random block."""
    out = []
    for rep in range(1 if tier == 'quick' else 3):
        for kwmode, via in ENTRIES:
            for one_row in (True, False):
                for rs in (True, False):
                    for bar in (False, True):
                        for one_job in (True, False):
                            rows = 1 if one_row else rng.choice([2, 3, 3, 4, 5])
                            c = _case(rng, rows, kwmode, via, return_samples=rs)
                            c['history'] = []
                            c['progress'] = rng.choice(['tqdm', 'tqdm', 'tqdm.notebook']) if bar else None
                            c['n_jobs'] = 1 if one_job else rng.choice([2, 3, rows + 1, rows + 3, -1] + [rows] * (rows > 1))
                            c['cover'] = True
                            out.append(c)
    return out


def cases(rng, tier):
    out = []
    n = 68 if tier == 'quick' else 520
    for _ in range(n):
        rows = rng.choice([2, 3, 4, 5, 5, 6, 7])
        r = rng.random()
        out.append(_case(rng, rows, 'list' if r < 0.5 else ('dict' if r < 0.82 else 'none')))
    # one-row arrays: option argument absent, a dict, a one-element list (the len(kwargs) > 1 switch); both entry points
    for rep in range(1 if tier == 'quick' else 6):
        for kwmode, via in (('none', 'func'), ('dict', 'func'), ('list', 'func'), ('dict', 'group'), ('none', 'group')):
            out.append(_case(rng, 1, kwmode, via))
    # one object fitted several times: decoy arrays of another shape first, then the judged array
    for rep in range(16 if tier == 'quick' else 64):
        c = _case(rng, rng.choice([1, 3, 3, 4, 5, 6, 7]), 'dict' if rng.random() < 0.75 else 'none', 'group', refit=True)
        if c['schedule'] == 'none' and rep % 4:
            c['schedule'] = ['reverse', 'first_slow', 'zigzag'][rep % 3]
        out.append(c)
    out.extend(_cover(rng, tier))
    return out


def stream_of(c):
    return 'object' if c.get('via') == 'group' and _mode(c) != 'list' else 'func'


def run_impl(c):
    import io, contextlib
    from bycycle.features import compute_features
    from bycycle.group import compute_features_2d
    mode = _mode(c)
    sigs = gl.relayout(np.array([gl.make_sig(k) for k in c['sig_ids']]), c.get('layout', 'C'))
    if c['via'] == 'group' and mode == 'list':
        c = dict(c, via='func')
    rs_key = c.get('rs_key') or []
    krng = gl.key_rng(c)
    if mode == 'list':
        kwobj = [gl.option_set(a, rs_key[i] if i < len(rs_key) else None, krng) for i, a in enumerate(c['kw'])]
    elif mode == 'dict':
        kwobj = gl.option_set(c['shared'], rs_key[0] if rs_key else None, krng)
    else:
        kwobj = None
    out = {}
    err = None
    bg = None
    stub = orig = None
    ck = '%s %s return_samples=%s %s jobs:%s' % cover_key(c)
    COVER[ck] = COVER.get(ck, 0) + 1
    try:
        with contextlib.redirect_stdout(io.StringIO()):
            if c['via'] == 'group':
                from bycycle import BycycleGroup
                if mode == 'none':
                    bg = BycycleGroup(return_samples=c['return_samples'])
                else:
                    kw = gl.KW_POOL[c['shared']]
                    bg = BycycleGroup(center_extrema=kw['center_extrema'], burst_method=kw.get('burst_method', 'cycles'),
                                      thresholds=gl.shuffled(krng, kw['threshold_kwargs']),
                                      find_extrema_kwargs=kw.get('find_extrema_kwargs'), return_samples=c['return_samples'])
                # earlier fits of the SAME object on arrays of another shape, re-assignments of its settings attributes
                gl.run_history(bg, c.get('history'), krng)
            stub = gl.ProgressStub().install() if c['progress'] else None
            orig = gl.install_delays([s for s in sigs], c['schedule'])
            if c['via'] == 'group':
                bg.fit(sigs, gl.FS, gl.FR, axis=0, n_jobs=c['n_jobs'], progress=c['progress'])
                dfs = bg.df_features
            elif mode == 'none' and c.get('omit_arg'):
                dfs = compute_features_2d(sigs, gl.FS, gl.FR, axis=0,
                                          return_samples=c['return_samples'], n_jobs=c['n_jobs'], progress=c['progress'])
            else:
                dfs = compute_features_2d(sigs, gl.FS, gl.FR, compute_features_kwargs=kwobj, axis=0,
                                          return_samples=c['return_samples'], n_jobs=c['n_jobs'], progress=c['progress'])
    except Exception as e:
        err = {'err': exc_kind(e), 'msg': str(e)[:200]}
    finally:
        observed = gl.uninstall(orig, c['schedule']) if orig is not None or gl._LOG[0] is not None else None
        pbar = stub.uninstall() if stub is not None else None
    if pbar is not None:
        out['pbar'] = pbar
        PROGRESS['cases_with_progress'] += 1
        if pbar['calls']:
            PROGRESS['stub_wrapped_the_result_iterator'] += 1
            PROGRESS['by_module'][pbar['module']] = PROGRESS['by_module'].get(pbar['module'], 0) + 1
            PROGRESS['stub_total_equals_rows'] += (pbar['total'] == len(sigs))
            PROGRESS['stub_items_pulled_equals_rows'] += (pbar['pulled'] + pbar['updated'] == len(sigs))
    out['completion'] = observed
    if err is not None:
        out.update(err)
        return out
    cands = {}
    if c['via'] == 'group':
        # every option set the object held during its history (the constructor's first), every row
        for vid, st in gl.versions(mode, c['shared'], c['return_samples'], c.get('history')):
            for b in range(len(sigs)):
                if vid is None and mode == 'none':
                    cands[(gl.NONE_ID, b, 0)] = compute_features(sigs[b], gl.FS, gl.FR, return_samples=c['return_samples'])
                elif vid is None:
                    kw = gl.option_set(c['shared'])
                    kw.setdefault('find_extrema_kwargs', None)
                    cands[(gl.SHARED_ID, b, 0)] = compute_features(sigs[b], gl.FS, gl.FR, return_samples=c['return_samples'], **kw)
                else:
                    cands[(vid, b, 0)] = compute_features(sigs[b], gl.FS, gl.FR, return_samples=st['return_samples'],
                                                          **gl.settings_kwargs(st))
    else:
        if mode == 'list':
            kws = [(a, a) for a in sorted(set(c['kw']))]
        elif mode == 'dict':
            kws = [(gl.SHARED_ID, c['shared'])]
        else:
            kws = [(gl.NONE_ID, None)]
        for aid, a in kws:
            for b in range(len(sigs)):
                kw = gl.option_set(a) if a is not None else {}
                cands[(aid, b, 0)] = compute_features(sigs[b], gl.FS, gl.FR, return_samples=c['return_samples'], **kw)
    try:
        dfs = list(dfs)
    except TypeError:
        dfs = []
    placement = []
    for i, df in enumerate(dfs):
        prefer = (_want_id(c, i), i, 0)
        placement.append(gl.match(df, cands, prefer) if hasattr(df, 'columns') else [gl.MISSING] * 3)
        if placement[-1][0] == gl.MISSING and 'unmatched' not in out:
            out['unmatched'] = 'the table at position %d: %s' % (i, gl.explain(df, cands, prefer))
    out['placement'] = [placement]
    out['n'] = len(dfs)
    if bg is not None:
        out['object'] = gl.observe_object(bg, sigs, cands, [(_want_id(c, i), i, 0) for i in range(len(sigs))])
    return out


def _want_id(c, i):
    mode = _mode(c)
    if mode == 'list' and c['via'] != 'group':
        return c['kw'][i] if i < len(c['kw']) else gl.MISSING
    vid = gl.current_vid(c.get('history')) if c['via'] == 'group' else None
    if vid is not None:
        return vid                      # the option set assigned last
    return gl.NONE_ID if mode == 'none' else gl.SHARED_ID


def oracle(c, o):
    if 'err' in o:
        return 'raised %s (%s)' % (o['err'], o.get('msg'))
    if o['n'] != c['rows']:
        return '%d tables returned for %d rows' % (o['n'], c['rows'])
    for i, t in enumerate(o['placement'][0]):
        want = [_want_id(c, i), i, 0]
        if t != want:
            return 'position %d holds the analysis (options, row) = %s, expected %s%s%s%s' % (
                i, t[:2], want[:2], ' (%d = no reference table matches: %s; return_samples=%s)' % (gl.MISSING, o['unmatched'], c['return_samples'])
                if t[0] == gl.MISSING and o.get('unmatched') else '',
                ' [progress=%s]' % c['progress'] if c.get('progress') else '',
                ' [BycycleGroup.fit%s; option ids: %d / %d = the constructor\'s, 1001.. = after the n-th assignment block]'
                % (gl.history_note(c.get('history')), gl.SHARED_ID, gl.NONE_ID) if gl.n_reassign(c.get('history')) else '')
    if 'object' in o:
        p = gl.object_problem(o['object'], (c['rows'],), [[_want_id(c, i), i, 0] for i in range(c['rows'])])
        if p:
            return 'BycycleGroup.fit%s: %s' % (gl.history_note(c.get('history')), p)
    return None


def nontrivial(c, o):
    return 'placement' in o and c['rows'] >= 3 and (c['schedule'] != 'none' or _mode(c) == 'list')


def kind_of(c, o):
    jobs = 'gt' if c['n_jobs'] > c['rows'] else ('all' if c['n_jobs'] == -1 else c['n_jobs'])
    return 'g2d/%s/%s/jobs%s%s%s' % (_mode(c), c['schedule'], jobs, '/1row' if c['rows'] == 1 else '',
                                     '/object-refit%d%s' % (gl.n_decoys(c['history']), '-reassign' if gl.n_reassign(c['history']) else '')
                                     if c.get('history') else
                                     '/object' if c.get('via') == 'group' and _mode(c) != 'list' else '')


def extra_evidence():
    return {'progress_wrapper': dict(PROGRESS), 'completion_order_observed': dict(gl.STATS),
            'option_space_cells_covered': '%d of 80' % len(COVER), 'option_space_cells_least_cases': min(COVER.values()) if COVER else 0}


def coq_case(c, o):
    if 'err' in o or 'placement' not in o:
        return None
    mode = _mode(c)
    if mode == 'list' and c['via'] == 'group':
        mode = 'dict'
    inp = '(G2 %s %s %d%%nat)' % (gl.nat_list(gl.sigma_for(c['schedule'], c['rows'], o.get('completion'))),
                                  gl.kw_term(mode, c['kw']), c['rows'])
    if stream_of(c) == 'object':
        if 'object' not in o:
            return None
        k0 = gl.NONE_ID if mode == 'none' else gl.SHARED_ID
        return (gl.history_term(k0, c.get('history'), inp),
                '(%s, %s)' % (gl.coq_triples(o['placement']), gl.coq_models(o['object']['models'])))
    return inp, gl.coq_triples(o['placement'])
