"""C20 — plots draw the analysis they are given.  Model/Plots.v; data read back from the Axes under Agg."""
import math
import numpy as np
from harness import coqio, gen, pipeline
from harness.core import exc_kind

PROP = 'C20'
PROPS_FILE = 'Props/C20.v'
_HDR = ('From Coq Require Import List ZArith NArith Floats.PrimFloat. Import ListNotations.\n'
        'From ByC Require Import Base.Result Harness.Compare Model.Plots.\nOpen Scope float_scope.')
COQ_STREAMS = {
    'markers': (_HDR, 'bad_markers', ('Z * nat * Z * list Z', 'list Z'), 300),
    'summary': (_HDR.replace('NArith Floats', 'NArith String Floats'), 'bad_summary', ('summ_in', 'summ_out'), 40),
    'offset': (_HDR, 'bad_offset', ('float * list float', 'list Z'), 50),
}
RULE = ('cycle tables of both centrings from generated signals; x-limits None or on the sample grid (values taken from the '
        'plotted time axis): stratified so that every plot function x centring x {no limits, random window, window starting '
        'where fs*t does not reproduce the sample index} occurs at least twice and, for plot_burst_detect_summary / Bycycle.plot, '
        'every (plot_only_result, interp) pair with each centring; further windows with no complete cycle, ending exactly on a '
        'cycle boundary, starting at t = 0, ending on the last sample, starting exactly on the first sample of a cycle '
        '(preferably one with fs * (k / fs) > k); threshold dictionaries with seeded values (pairwise different), keys in '
        'seeded insertion order, min_n_cycles first / in the middle / last / absent, sometimes a subset of the four '
        'parameters, through Bycycle(...) also written with the shorthand names; every threshold line is compared with '
        'the value given for the parameter whose per-cycle values the panel shows; plot_cyclepoints_array / '
        'plot_cyclepoints_df with the four kind switches. Line2D data and masked arrays are read back from the Axes: marker x '
        'against sample / fs and against the plotted trace, marker y against the plotted value, highlighted samples, parameter '
        'panel points (interp and step branch) and threshold lines. The window offset on its own: every start sample k < 400 '
        '(5000 thorough, every 7th) of 9 sampling rates through plot_cyclepoints_array, a seeded sample of them (half '
        'of it among the k with fs * (k / fs) != k) through plot_burst_detect_summary and plot_burst_detect_param (both '
        'branches) with a synthetic 3-row table whose first (labelled) cycle starts exactly on the first sample of the view and '
        'whose last cycle ends exactly on its last sample. non-trivial = a '
        'window with x-limits that contains at least one marker / one labelled cycle, or an offset sweep')
ASSUMPTIONS = ['matplotlib rendering itself is trusted; only the data handed to the artists is checked (partial)',
               'which parameter a panel shows is read off its drawn per-cycle values (not off the order of the panels or their '
               'labels); where the values of two parameters coincide in the view, any assignment under which every threshold '
               'line is at the value given for its parameter is accepted. The model comparison additionally pins the order '
               'of the panels to the order of the keys in the dictionary handed to the plot']
TRUST = ['sample index of a drawn x value = round(x * fs), accepted only when |x - index / fs| < 1e-9 / fs']

PKEYS = ['amp_fraction_threshold', 'amp_consistency_threshold', 'period_consistency_threshold', 'monotonicity_threshold']
THR_RANGES = {'amp_fraction_threshold': (0.0, 0.25), 'amp_consistency_threshold': (0.25, 0.5),
              'period_consistency_threshold': (0.25, 0.5), 'monotonicity_threshold': (0.5, 0.7)}
MIN_N_POS = ['first', 'middle', 'last', 'absent']
WHATS = ['array', 'df', 'summary', 'object']
CENTRES = ['peak', 'trough']
BASE_MODES = ['none', 'grid', 'trunc']
EXTRA_MODES = ['tiny', 'cycle_end', 'from_zero', 'to_end', 'cycle_start']
OFFSET_FS = [50.0, 64.0, 100.0, 128.0, 200.0, 250.0, 500.0, 1000.0, 30.0]


def _thresholds(rng, pos=None, shorthand=False, subset=None):
    """A threshold dictionary as a list of [key as written, value] in insertion order: pairwise different values, keys
    shuffled, min_n_cycles first / in the middle / last / absent, optionally a subset of the parameters (at least two)
    and, for the object interface, some keys written in the documented shorthand (without `_threshold`)."""
    vals = {}
    for k in PKEYS:
        lo, hi = THR_RANGES[k]
        while True:
            v = round(rng.uniform(lo, hi), 3)
            if all(abs(v - w) >= 0.004 for w in vals.values()):
                break
        vals[k] = v
    keys = list(PKEYS)
    rng.shuffle(keys)
    if subset is None:
        subset = rng.random() < 0.2
    if subset:
        keys = keys[:rng.randint(2, 3)]
    pos = pos or rng.choice(MIN_N_POS)
    items = [[k, vals[k]] for k in keys]
    if pos != 'absent':
        at = {'first': 0, 'last': len(items), 'middle': rng.randint(1, len(items) - 1)}[pos]
        items.insert(at, ['min_n_cycles', rng.choice([2, 3])])
    if shorthand:
        idx = [i for i, it in enumerate(items) if it[0] != 'min_n_cycles']
        for i in rng.sample(idx, rng.randint(1, len(idx))):
            items[i][0] = items[i][0][:-len('_threshold')]
    return items


def _full_key(k):
    return k if k == 'min_n_cycles' or k.endswith('_threshold') else k + '_threshold'


def _thr_dict(items):
    return {k: v for k, v in items}


def _thr_full(items):
    """The same settings with every key written in full (what the functions take)."""
    return {_full_key(k): v for k, v in items}


def _plot_case(rng, what, centre, mode, pair=None, pos=None):
    s = gen.signal(rng, kind=rng.choice(['sparse', 'bursty', 'sum', 'sine', 'asym']), max_len=420)
    ln = len(s['sig'])
    if pair is None:
        pair = (rng.random() < 0.4, rng.random() < 0.6)
    return {'kind': 'plot/' + mode, 'sig': gen.hexlist(s['sig']), 'fs': s['fs'], 'f_range': list(s['f_range']),
            'center': centre, 'mode': mode, 'a': rng.randint(1, ln // 2), 'w': rng.randint(3, ln // 2), 'what': what,
            'switch': [rng.random() < 0.8 for _ in range(4)], 'plot_sig': rng.random() < 0.5,
            'only_result': bool(pair[0]), 'interp': bool(pair[1]),
            'thr': _thresholds(rng, pos, shorthand=(what == 'object' and rng.random() < 0.7))}


def cases(rng, tier):
    out = []
    reps = 2 if tier == 'quick' else 12
    pairs = [(False, True), (False, False), (True, True), (True, False)]
    for what in WHATS:
        for centre in CENTRES:
            # every (plot_only_result, interp) pair at least once per (function, centring); the rest drawn at random
            todo = list(pairs)
            rng.shuffle(todo)
            # ... and every position of min_n_cycles in the threshold dictionary (first / middle / last / absent)
            poss = list(MIN_N_POS)
            rng.shuffle(poss)
            for rep in range(reps):
                for mode in BASE_MODES:
                    out.append(_plot_case(rng, what, centre, mode, todo.pop() if todo else None, poss.pop() if poss else None))
    for rep in range(1 if tier == 'quick' else 10):
        for mode in EXTRA_MODES:
            for what in WHATS:
                out.append(_plot_case(rng, what, rng.choice(CENTRES), mode))
    # the view starts exactly on the first sample of a cycle (F16): more of them through the burst summary, panels drawn
    for rep in range(2 if tier == 'quick' else 12):
        for what in ('summary', 'object'):
            out.append(_plot_case(rng, what, CENTRES[rep % 2], 'cycle_start', (False, rep % 4 < 2)))
    if tier != 'quick':
        for _ in range(120):
            out.append(_plot_case(rng, rng.choice(WHATS), rng.choice(CENTRES), rng.choice(BASE_MODES + EXTRA_MODES)))
    # the window offset on its own: start samples of several sampling rates, through three plot functions
    nk = 400 if tier == 'quick' else 5000
    for fs in OFFSET_FS:
        for lo in range(0, nk, 200 if tier == 'quick' else 2500):
            out.append({'kind': 'offset', 'via': 'array', 'fs': fs, 'ks': list(range(lo, min(nk, lo + (200 if tier == 'quick' else 2500))))})
        # start samples whose time stamp times fs does not reproduce the sample index (either direction) + random ones
        below = [k for k in range(1, nk) if (k / fs) * fs < k]
        above = [k for k in range(1, nk) if (k / fs) * fs > k]
        for via, m in (('summary', 6 if tier == 'quick' else 30), ('param', 15 if tier == 'quick' else 100)):
            ks = set([0])
            for pool in (below, above):
                ks.update(rng.sample(pool, min(m, len(pool))))
            ks.update(rng.sample(range(1, nk), 2 * m))
            out.append({'kind': 'offset', 'via': via, 'fs': fs, 'ks': sorted(ks), 'thr': _thresholds(rng, subset=False)})
    return out


def _xlim(c, n, fs, rows):
    """(xlim, first sample of the view, number of samples in the view).  Time stamps are those of the plotted time
    axis, np.arange(n) / fs, whose entries are the correctly rounded quotients k / fs."""
    mode = c['mode']
    if mode == 'none':
        return None, 0, n
    a = min(c['a'], n - 3)
    if mode == 'trunc':
        bad = [k for k in range(1, n - 3) if (k / fs) * fs != k]
        if bad:
            a = bad[c['a'] % len(bad)]
    if mode == 'from_zero':
        a = 0
    first_of = None
    if mode == 'cycle_start':
        # the view starts exactly on the first sample of a cycle, preferably where fs * (k / fs) > k (F16), and shows
        # that cycle entirely
        starts = [r for r in rows if 1 <= r[0] and r[1] + 1 <= n - 1]
        pick = [r for r in starts if (r[0] / fs) * fs > r[0]] or [r for r in starts if (r[0] / fs) * fs != r[0]] or starts
        if pick:
            first_of = pick[c['a'] % len(pick)]
            a = first_of[0]
    b = min(n - 1, a + c['w'])
    if first_of is not None:
        b = min(n - 1, max(b, first_of[1] + 1))
    if mode == 'tiny':
        b = min(n - 1, a + 3)
    if mode == 'to_end':
        b = n - 1
    if mode == 'cycle_end' and len(rows) > 1:
        ends = [r[1] for r in rows if a + 2 < r[1] < n - 1]
        if ends:
            b = ends[c['w'] % len(ends)]
    return (a / fs, b / fs), a, b - a      # samples with a / fs <= t < b / fs


def _idx(x, fs):
    return int(round(float(x) * fs))


def _x_ok(x, fs, trace=None):
    """x is the time stamp of its sample (to a billionth of a sample period) and, when a trace is plotted, the x of
    the trace at that sample."""
    i = _idx(x, fs)
    tol = 1e-9 / fs
    ok = abs(float(x) - i / fs) <= tol
    if ok and trace is not None:
        tx, first = trace[0], trace[1]
        j = i - first
        ok = 0 <= j < len(tx) and abs(float(tx[j]) - float(x)) <= tol
    return bool(ok)


def _same(a, b, tol):
    a, b = float(a), float(b)
    return (math.isnan(a) and math.isnan(b)) or abs(a - b) <= tol


def _synth_table(k):
    """Three peak-centred cycles [k, k+3] [k+3, k+6] [k+6, k+10], the first two labelled: the first starts exactly on the
    first sample of the view [k, k+11), the last ends exactly on its last sample."""
    import pandas as pd
    return pd.DataFrame({'sample_peak': [k + 2, k + 5, k + 8], 'sample_last_trough': [k, k + 3, k + 6],
                         'sample_next_trough': [k + 3, k + 6, k + 10], 'sample_zerox_rise': [k + 1, k + 4, k + 7],
                         'sample_zerox_decay': [k + 2, k + 5, k + 9], 'sample_last_zerox_decay': [k - 1, k + 2, k + 5],
                         'is_burst': [True, True, False], 'amp_fraction': [0.2, 0.5, 0.9],
                         'amp_consistency': [np.nan, 0.5, np.nan], 'period_consistency': [np.nan, 0.625, np.nan],
                         'monotonicity': [0.75, 0.875, 0.5]})


_SYNTH_ROWS = [(0, 3, 2, 0.75), (3, 6, 5, 0.875), (6, 10, 8, 0.5)]      # (last, next, centre, monotonicity) relative to k
_SYNTH_BURST = (0, 6)                                                     # labelled samples, relative to k
_SYNTH_VIEW = 11


def _clear(ax):
    for art in list(ax.lines) + list(ax.patches) + list(ax.collections):
        art.remove()


def _run_offset(c):
    import matplotlib.pyplot as plt
    fs = c['fs']
    n = max(c['ks']) + _SYNTH_VIEW + 3
    sig = np.arange(n, dtype=float)
    ks = c['ks']
    if len(ks) > 800:
        ks = ks[::7]
    got = []
    via = c['via']
    try:
        if via == 'array':
            from bycycle.plts import plot_cyclepoints_array as fn
        elif via == 'summary':
            from bycycle.plts import plot_burst_detect_summary as fn
        else:
            from bycycle.plts import plot_burst_detect_param as fn
    except ImportError as e:
        return {'skip': 'plot function not importable: %s' % e}
    fig, ax = plt.subplots()
    try:
        for i, k in enumerate(ks):
            t0 = k / fs
            try:
                if via == 'array':
                    # offsets used for a window starting at sample k: sig[i] = i, so the drawn y is the sample read
                    fn(sig, fs, peaks=np.array([k + 1, k + 2]), xlim=(t0, (k + 4) / fs), ax=ax, plot_sig=False)
                    ln = ax.lines[0]
                    got.append([k, float(t0).hex(), [float(v) for v in ln.get_ydata()], [float(v).hex() for v in ln.get_xdata()]])
                    _clear(ax)
                elif via == 'summary':
                    fn(_synth_table(k), sig, fs, _thr_dict(c['thr']), xlim=(t0, (k + _SYNTH_VIEW) / fs), plot_only_result=True)
                    f2 = plt.gcf()
                    l0 = f2.axes[0].lines
                    bx = l0[1].get_xdata()
                    m = np.ma.getmaskarray(l0[1].get_ydata())
                    hl = [_idx(x, fs) for x, mm in zip(bx, m) if not mm]
                    mk = [[float(v) for v in l0[j].get_ydata()] for j in (2, 3)]
                    zs = [float(v) for v in l0[0].get_ydata()]
                    got.append([k, float(t0).hex(), hl, mk, [_idx(bx[0], fs), len(bx)], zs])
                    plt.close(f2)
                else:
                    interp = bool((i + k) % 2)
                    fn(_synth_table(k), sig, fs, 'monotonicity', 0.6, xlim=(t0, (k + _SYNTH_VIEW) / fs), interp=interp, ax=ax)
                    ln = ax.lines[0]
                    got.append([k, float(t0).hex(), interp, [[float(x).hex(), float(y)] for x, y in zip(ln.get_xdata(), ln.get_ydata())],
                                str(ln.get_drawstyle())])
                    _clear(ax)
            except Exception as e:
                got.append([k, float(t0).hex(), 'err:' + exc_kind(e) + ':' + str(e)[:80]])
                _clear(ax)
    finally:
        plt.close('all')
    return {'offsets': got}


def _markers(ln, fs, ref, tol, trace):
    """[sample, y is the plotted value at that sample, x is the time stamp of that sample] per drawn marker."""
    res = []
    for x, y in zip(ln.get_xdata(), ln.get_ydata()):
        i = _idx(x, fs)
        y_ok = 0 <= i < len(ref) and abs(float(y) - float(ref[i])) <= tol
        if y_ok and trace is not None:
            j = i - trace[1]
            y_ok = 0 <= j < len(trace[2]) and abs(float(trace[2][j]) - float(y)) <= tol
        res.append([i, bool(y_ok), _x_ok(x, fs, trace)])
    return res


def run_impl(c):
    import matplotlib
    import matplotlib.pyplot as plt
    if c['kind'] == 'offset':
        return _run_offset(c)
    from bycycle.features import compute_features
    from bycycle.plts import plot_cyclepoints_array, plot_cyclepoints_df, plot_burst_detect_summary
    sig = gen.unhexlist(c['sig'])
    fs = c['fs']
    try:
        df = compute_features(sig, fs, tuple(c['f_range']), center_extrema=c['center'], threshold_kwargs=_thr_full(c['thr']))
    except Exception as e:
        return {'skip': 'compute_features raised %s' % exc_kind(e)}
    sc = pipeline.sample_cols(c['center'])
    rows = [[int(df[sc[1]].iloc[i]), int(df[sc[2]].iloc[i]), bool(df['is_burst'].iloc[i]), int(df[sc[0]].iloc[i])] for i in range(len(df))]
    xlim, s0, nview = _xlim(c, len(sig), fs, rows)
    out = {'s0': s0, 'n': nview, 'xlim': None if xlim is None else [float(xlim[0]).hex(), float(xlim[1]).hex()]}
    centres = [r[3] for r in rows]
    sides = sorted(set([r[0] for r in rows] + [r[1] for r in rows]))
    rises = [int(v) for v in df['sample_zerox_rise'].values]
    decays = [int(v) for v in df['sample_zerox_decay'].values]
    out['series_in'] = {'centres': centres, 'sides': sides, 'rises': rises, 'decays': decays}
    out['rows'] = rows
    try:
        if c['what'] in ('array', 'df'):
            fig, ax = plt.subplots()
            sw = c['switch']
            if c['what'] == 'array':
                kw = {}
                names = []
                for flag, nm, vals in zip(sw, ['peaks', 'troughs', 'rises', 'decays'], [centres, sides, rises, decays]):
                    if flag:
                        kw[nm] = np.array(vals, dtype=int)
                        names.append(nm)
                if not names:
                    kw['peaks'] = np.array(centres, dtype=int)
                    names = ['peaks']
                plot_cyclepoints_array(sig, fs, plot_sig=c['plot_sig'], xlim=xlim, ax=ax, **kw)
            else:
                ext, zx = sw[0] or not sw[2], sw[2]
                plot_cyclepoints_df(df, sig, fs, plot_sig=c['plot_sig'], plot_extrema=ext, plot_zerox=zx, xlim=xlim, ax=ax)
                names = (['peaks', 'troughs'] if ext else []) + (['rises', 'decays'] if zx else [])
            trace = None
            if c['plot_sig']:
                tx = ax.lines[0].get_xdata()
                trace = (tx, _idx(tx[0], fs), ax.lines[0].get_ydata()) if len(tx) else None
            lines = ax.lines[1:] if c['plot_sig'] else ax.lines
            out['series'] = {}
            for nm, ln in zip(names, lines):
                out['series'][nm] = _markers(ln, fs, sig, 0.0, trace)
            out['n_series_lines'] = len(lines)
            out['names'] = names
        else:
            if c['what'] == 'object':
                from bycycle import Bycycle
                bm = Bycycle(center_extrema=c['center'], thresholds=_thr_dict(c['thr']))      # keys as written (shorthand)
                bm.fit(sig, fs, tuple(c['f_range']))
                bm.plot(xlim=xlim, plot_only_results=c['only_result'], interp=c['interp'])
            else:
                plot_burst_detect_summary(df, sig, fs, _thr_full(c['thr']), xlim=xlim, plot_only_result=c['only_result'],
                                          interp=c['interp'])
            fig = plt.gcf()
            axes = fig.axes
            l0 = axes[0].lines
            from scipy.stats import zscore
            z = zscore(sig)
            tx = l0[0].get_xdata()
            trace = (tx, _idx(tx[0], fs), l0[0].get_ydata())
            out['view_first'] = _idx(tx[0], fs)
            out['view_len'] = len(tx)
            burst = l0[1].get_ydata()
            bx = l0[1].get_xdata()
            m = np.ma.getmaskarray(burst)
            out['mask'] = coqio.mask_of([not bool(v) for v in m])
            out['mask_len'] = len(m)
            out['mask_first'] = _idx(bx[0], fs) if len(bx) else None
            out['mask_x_ok'] = bool(all(_x_ok(x, fs) for x in bx))
            out['markers'] = {}
            for nm, ln in zip(['peaks', 'troughs'], l0[2:4]):
                out['markers'][nm] = _markers(ln, fs, z, 1e-12, trace)
            if not c['only_result']:
                panels = []
                for axp in axes[1:]:          # in drawn order; which parameter a panel shows is decided by the oracle
                    ls = axp.lines
                    pts = [[_idx(x, fs), None if math.isnan(float(y)) else float(y), _x_ok(x, fs)]      # NaN travels as None (strict JSON)
                           for x, y in zip(ls[0].get_xdata(), ls[0].get_ydata())]
                    tl = [float(v) for v in ls[1].get_ydata()] if len(ls) > 1 else []
                    panels.append({'points': pts, 'thr_line': tl, 'drawstyle': str(ls[0].get_drawstyle())})
                out['panels'] = panels
                out['panel_values'] = {k: [float(v) if not math.isnan(float(v)) else None for v in df[k.replace('_threshold', '')].values]
                                       for k in PKEYS}
    except Exception as e:
        out['err'] = exc_kind(e)
        out['msg'] = str(e)[:160]
    finally:
        plt.close('all')
    return out


def _val(v):
    return float('nan') if v is None else float(v)


def _steps_show(points, centre, v):
    """The drawn polyline passes horizontally through (centre, v): two consecutive points with the value v whose
    samples enclose the centre."""
    for (x1, y1, _), (x2, y2, _) in zip(points, points[1:]):
        if x1 <= centre <= x2 and _same(_val(y1), v, 1e-12) and _same(_val(y2), v, 1e-12):
            return True
    return False


def _oracle_offset(c, o):
    fs = c['fs']
    for g in o['offsets']:
        k = g[0]
        if isinstance(g[2], str):
            return 'window starting at sample %d (fs=%s) through %s: %s' % (k, fs, c['via'], g[2])
        if c['via'] == 'array':
            ys, xs = g[2], [float.fromhex(h) for h in g[3]]
            if ys != [float(k + 1), float(k + 2)]:
                return 'window starting at sample %d (fs=%s): markers for samples %d,%d drawn with signal values %s' % (
                    k, fs, k + 1, k + 2, ys)
            if not all(_x_ok(x, fs) and _idx(x, fs) == p for x, p in zip(xs, (k + 1, k + 2))):
                return 'window starting at sample %d (fs=%s): markers for samples %d,%d drawn at t=%s' % (k, fs, k + 1, k + 2, xs)
        elif c['via'] == 'summary':
            hl, mk, view, zs = g[2], g[3], g[4], g[5]
            want = list(range(k + _SYNTH_BURST[0], k + _SYNTH_BURST[1] + 1))
            if sorted(hl) != want:
                return ('summary, window starting at sample %d (fs=%s): highlighted samples %s, the labelled cycles are '
                        '[%d, %d] and [%d, %d], both entirely inside the view' % (k, fs, hl, k, k + 3, k + 3, k + 6))
            # markers: the plotted trace is increasing, so a drawn value identifies the sample it was read from
            for nm, ys, pts in (('centre', mk[0], [k + r[2] for r in _SYNTH_ROWS]),
                                ('side', mk[1], sorted(set([k + r[0] for r in _SYNTH_ROWS] + [k + r[1] for r in _SYNTH_ROWS])))):
                vals = {}
                for p in pts:
                    j = p - view[0]
                    if 0 <= j < len(zs):
                        vals[p] = zs[j]
                for y in ys:
                    if not any(abs(y - v) < 1e-12 for v in vals.values()):
                        return 'summary, window starting at sample %d (fs=%s): %s marker drawn with a value that is not the trace at a %s extremum' % (k, fs, nm, nm)
                for p in pts:
                    if k < p < k + _SYNTH_VIEW - 1 and p in vals and not any(abs(y - vals[p]) < 1e-12 for y in ys):
                        return 'summary, window starting at sample %d (fs=%s): %s extremum at sample %d inside the view is not drawn' % (k, fs, nm, p)
        else:
            interp, pts, style = g[2], [[_idx(float.fromhex(h), fs), y, _x_ok(float.fromhex(h), fs)] for h, y in g[3]], g[4]
            if not all(p[2] for p in pts):
                return 'panel, window starting at sample %d (fs=%s): a point is not drawn at a sample time' % (k, fs)
            for la, nx, ce, v in _SYNTH_ROWS:
                if interp:
                    if not any(p[0] == k + ce and _same(p[1], v, 1e-12) for p in pts):
                        return 'panel, window starting at sample %d (fs=%s): no point (%d, %s) for the cycle centred on sample %d; drawn %s' % (
                            k, fs, k + ce, v, k + ce, [p[:2] for p in pts])
                elif style == 'default' and not _steps_show(pts, k + ce, v):
                    return 'panel (steps), window starting at sample %d (fs=%s): value %s is not drawn across the centre %d; drawn %s' % (
                        k, fs, v, k + ce, [p[:2] for p in pts])
            for p in pts:
                if not any(k + la <= p[0] <= k + nx and _same(p[1], v, 1e-12) for la, nx, ce, v in _SYNTH_ROWS):
                    return 'panel, window starting at sample %d (fs=%s): point %s shows no cycle of the table' % (k, fs, p[:2])
    return None


def _panel_values_verdict(c, o, p, key, inside, s0, n):
    """The panel p shows the per-cycle values of parameter `key` (None), or why not."""
    col = o['panel_values'][key]
    pts = p['points']
    if not all(q[2] for q in pts):
        return 'a point is not drawn at a sample time'
    if c['interp']:
        cent = {r[3]: i for i, r in enumerate(o['rows'])}
        for x, y, _ in pts:
            if x not in cent:
                return 'point at sample %d which is not a cycle centre' % x
            if not _same(_val(y), _val(col[cent[x]]), 1e-12):
                return 'value %r at centre %d, table has %r' % (y, x, col[cent[x]])
        for r in inside:
            if not any(x == r[3] for x, _, _ in pts):
                return 'no point for the cycle centred on sample %d, which lies entirely inside the view [%d,+%d)' % (r[3], s0, n)
        return None
    # steps: every drawn value is the value of a cycle covering that sample, and the value of every cycle entirely
    # inside the view is drawn across its centre
    for x, y, _ in pts:
        if not any(r[0] <= x <= r[1] and _same(_val(y), _val(col[i]), 1e-12) for i, r in enumerate(o['rows'])):
            return '(steps) value %r at sample %d is not the value of a cycle covering that sample' % (y, x)
    if p['drawstyle'] == 'default':
        for i, r in enumerate(o['rows']):
            if s0 <= r[0] and r[1] <= s0 + n - 1 and not _steps_show(pts, r[3], _val(col[i])):
                return '(steps) value %r of the cycle [%d, %d] is not drawn across its centre %d' % (col[i], r[0], r[1], r[3])
    return None


def _thr_line_ok(p, want):
    return bool(p['thr_line']) and all(abs(v - want) < 1e-12 for v in p['thr_line'])


def _matching(cands, n_right):
    """A perfect matching panel -> parameter (cands[i] = admissible parameter indices of panel i), or None."""
    def go(i, used):
        if i == len(cands):
            return []
        for j in cands[i]:
            if j not in used:
                rest = go(i + 1, used | {j})
                if rest is not None:
                    return [j] + rest
        return None
    return go(0, frozenset()) if len(cands) == n_right else None


def _judge_panels(c, o, inside, s0, n):
    """One panel per given parameter, each showing that parameter's per-cycle values with the threshold line at the value
    given for THAT parameter (by name).  Which panel shows which parameter is read off the drawn values, not off the
    order of the panels or their labels."""
    given = [(_full_key(k), v) for k, v in c['thr'] if k != 'min_n_cycles']
    panels = o['panels']
    if len(panels) != len(given):
        return '%d parameter panels drawn for the %d parameters given (%s)' % (len(panels), len(given), [k for k, _ in given])
    why = [[_panel_values_verdict(c, o, p, k, inside, s0, n) for k, _ in given] for p in panels]
    by_values = [[j for j in range(len(given)) if why[i][j] is None] for i in range(len(panels))]
    for i, cand in enumerate(by_values):
        if not cand:
            return 'panel %d shows the per-cycle values of none of the given parameters (e.g. %s: %s)' % (
                i + 1, given[min(i, len(given) - 1)][0], why[i][min(i, len(given) - 1)])
    full = [[j for j in by_values[i] if _thr_line_ok(panels[i], given[j][1])] for i in range(len(panels))]
    if _matching(full, len(given)) is not None:
        return None
    m = _matching(by_values, len(given))
    if m is None:
        return 'the panels do not show each given parameter once (admissible parameters per panel: %s)' % (
            [[given[j][0] for j in cand] for cand in by_values])
    for i, j in enumerate(m):
        if not _thr_line_ok(panels[i], given[j][1]):
            return 'the panel showing %s draws its threshold line at %s, the %s given is %s (thresholds as given: %s)' % (
                given[j][0].replace('_threshold', ''), panels[i]['thr_line'], given[j][0], given[j][1], c['thr'])
    return 'threshold lines do not match the given thresholds by name (given: %s; drawn: %s)' % (
        c['thr'], [p['thr_line'] for p in panels])


def oracle(c, o):
    if 'skip' in o:
        return None
    if c['kind'] == 'offset':
        return _oracle_offset(c, o)
    if 'err' in o:
        return '%s raised %s (%s) for xlim=%s' % (c['what'], o['err'], o.get('msg'), o['xlim'])
    s0, n = o['s0'], o['n']
    si = o['series_in']
    src = {'peaks': si['centres'], 'troughs': si['sides'], 'rises': si['rises'], 'decays': si['decays']}

    def strictly_inside(p):
        return s0 < p < s0 + n - 1

    def judge_markers(label, nm, got, must):
        # drawn markers: genuine cyclepoints of their kind, at (sample / fs, plotted value at that sample)
        genuine = set(src[nm])
        for g in got:
            if g[0] not in genuine:
                return '%s %s marker at sample %d, which is not one of the %s of the table' % (label, nm, g[0], nm)
            if not g[2]:
                return '%s %s marker of sample %d is not drawn at t = sample / fs' % (label, nm, g[0])
            if not g[1]:
                return '%s %s marker of sample %d is not at the plotted signal value of its sample' % (label, nm, g[0])
        drawn = set(g[0] for g in got)
        miss = [p for p in must if p not in drawn]
        if miss:
            return '%s %s at samples %s lie strictly inside the view [%d,+%d) but are not drawn (drawn: %s)' % (
                label, nm, miss[:6], s0, n, sorted(drawn)[:8])
        return None

    if c['what'] in ('array', 'df'):
        for nm in o['names']:
            got = o['series'].get(nm)
            if got is None:
                return 'series %s not drawn' % nm
            # every cyclepoint strictly inside the view is drawn (first / last sample of the view are not constrained)
            msg = judge_markers(c['what'], nm, got, [p for p in src[nm] if strictly_inside(p)])
            if msg:
                return msg
        return None
    # burst summary.  Its extrema markers are those of the window-limited table: every drawn marker must be genuine; the
    # extrema of cycles lying entirely inside the view must be drawn (other in-view extrema may or may not be)
    inside = [r for r in o['rows'] if s0 <= r[0] and r[1] <= s0 + n - 1]
    for nm in ('peaks', 'troughs'):
        must = [r[3] for r in inside] if nm == 'peaks' else sorted(set([r[0] for r in inside] + [r[1] for r in inside]))
        need = [p for p in must if strictly_inside(p)]
        if nm not in o['markers']:
            # the figure has fewer marker series than kinds of extrema: nothing of this kind is drawn at all
            if need:
                return 'summary: no %s marker series in the figure although %s at samples %s lie strictly inside the view' % (nm, nm, need[:6])
            continue
        msg = judge_markers('summary', nm, o['markers'][nm], need)
        if msg:
            return msg
    if not o['mask_x_ok']:
        return 'the highlighted trace is not drawn at sample times'
    allowed, required = set(), set()
    for la, nx, lab, ce in o['rows']:
        if lab:
            allowed.update(range(la, nx + 1))
            if s0 <= la and nx <= s0 + n - 1:
                required.update(range(la, nx + 1))
    first = o['mask_first'] if o['mask_first'] is not None else s0
    high = set(first + i for i in range(o['mask_len']) if (o['mask'] >> i) & 1)
    for smp in sorted(high):
        if smp not in allowed:
            return 'highlighted sample %d does not belong to a cycle labelled is_burst' % smp
    for smp in sorted(required):
        if smp not in high:
            return 'sample %d of a bursting cycle lying entirely inside the view is not highlighted' % smp
    if 'panels' in o:
        return _judge_panels(c, o, inside, s0, n)
    return None


def nontrivial(c, o):
    if c['kind'] == 'offset':
        return 'offsets' in o
    if 'series' in o:
        return c['mode'] != 'none' and any(len(v) > 0 for v in o['series'].values())
    return 'mask' in o and c['mode'] != 'none' and o['mask'] != 0


def kind_of(c, o):
    if c['kind'] == 'offset':
        return 'offset/' + c['via'] + ('/skipped' if 'skip' in o else '')
    return c['kind'] + '/' + c['what'] + '/' + c['center'] + ('/err' if 'err' in o else '')


def stream_of(c):
    if c['kind'] == 'offset':
        return 'offset'
    return 'markers' if c.get('what') in ('array', 'df') else 'summary'


def _zf(i, y):
    return '(%s%%Z, %s)' % (coqio.Z(i), coqio.fl(y))


def coq_case(c, o):
    if 'skip' in o or 'err' in o:
        return None
    if c['kind'] == 'offset':
        fs = c['fs']
        ok = [g for g in o['offsets'] if not isinstance(g[2], str)]
        t0s, obs = [], []
        for g in ok:
            k = g[0]
            if c['via'] == 'array':
                # marker of sample k+1 is drawn with the value of sample k + (k+1 - off)
                off = int(2 * k + 1 - g[2][0]) if g[2] else None
            elif c['via'] == 'summary':
                # the first labelled cycle starts at sample k and is highlighted from view index k - off
                off = (k + _SYNTH_BURST[0]) - (min(g[2]) - g[4][0]) if g[2] else None
            else:
                # first drawn point belongs to sample p of the table and sits at view index p - off
                p = k + (_SYNTH_ROWS[0][2] if g[2] else _SYNTH_ROWS[0][0])
                off = p - (_idx(float.fromhex(g[3][0][0]), fs) - k) if g[3] else None
            if off is None:
                continue
            t0s.append(float.fromhex(g[1]))
            obs.append(off)
        if not t0s:
            return None
        return '(%s, %s)' % (coqio.fl(fs), coqio.flist(t0s)), coqio.zlist(obs)
    s0, n = o['s0'], o['n']
    if c['what'] in ('array', 'df'):
        nm = o['names'][0]
        si = o['series_in']
        src = {'peaks': si['centres'], 'troughs': si['sides'], 'rises': si['rises'], 'decays': si['decays']}[nm]
        got = [g[0] - s0 for g in (o['series'].get(nm) or []) if s0 < g[0] < s0 + n - 1]
        src = [p for p in src if p != s0]
        return '(%d%%Z, %d%%nat, %d%%Z, %s)' % (s0, n, s0, coqio.zlist(src)), coqio.zlist(got)
    # the whole table goes to the model, which selects the window-limited rows itself (Model/Window.v keep_row)
    lim = 'None' if o['xlim'] is None else '(Some (%s, %s, %s))' % (
        coqio.fl(c['fs']), coqio.fl(float.fromhex(o['xlim'][0])), coqio.fl(float.fromhex(o['xlim'][1])))
    with_panels = 'panels' in o
    vals = o.get('panel_values')
    rws = coqio.lst(['((%s%%Z, %s%%Z, %s%%Z), %s, %s)' % (
        coqio.Z(r[3]), coqio.Z(r[0]), coqio.Z(r[1]), coqio.B(r[2]),
        coqio.lst([coqio.fl(_val(vals[k][i])) for k in PKEYS] if vals else []))
        for i, r in enumerate(o['rows'])])
    user = coqio.lst(['(("%s"%%string, %s), %s)' % (_full_key(k), coqio.B(_full_key(k) != k), coqio.fl(float(v))) for k, v in c['thr']])
    inp = '(%d%%nat, %s%%Z, %s, %s, %s, %s, %s, %s, %s)' % (
        n, coqio.Z(s0), lim, coqio.lst(['"%s"%%string' % k for k in PKEYS]), rws, coqio.B(c['interp']), coqio.B(with_panels),
        coqio.B(c['what'] == 'object'), user)
    pans = []
    for p in o.get('panels', []):
        tl = p['thr_line']
        line = '(Some %s)' % coqio.fl(tl[0]) if tl and all(v == tl[0] for v in tl) else 'None'
        pans.append('(%s, %s)' % (line, coqio.lst([_zf(q[0] - s0, _val(q[1])) for q in p['points']])))
    mk = [coqio.zlist([g[0] - s0 for g in o['markers'].get(nm, []) if s0 < g[0] < s0 + n - 1]) for nm in ('peaks', 'troughs')]
    outp = '(%s, (%s, %s), %s)' % (coqio.barr(o['mask_len'], o['mask']), mk[0], mk[1], coqio.lst(pans))
    return inp, outp
