"""C20 — plots draw the analysis they are given.  Model/Plots.v; data read back from the Axes under Agg."""
import math
import numpy as np
from harness import coqio, gen, pipeline
from harness.core import exc_kind

PROP = 'C20'
PROPS_FILE = 'Props/C20.v'
_HDR = ('From Coq Require Import List ZArith NArith Floats.PrimFloat. Import ListNotations.\n'
        'From ByC Require Import Base.Result Harness.Compare Model.Plots.\nOpen Scope float_scope.')
COQ_STREAMS = {
    'markers': (_HDR, 'bad_markers', ('Z * nat * Z * list Z', 'list Z'), 300),
    'mask': (_HDR, 'bad_burst_mask', ('nat * Z * list ((Z * Z) * bool)', 'barr'), 100),
    'offset': (_HDR, 'bad_offset', ('float * list float', 'list Z'), 50),
}
RULE = ('cycle tables of both centrings from generated signals; x-limits None or on the sample grid (values taken from the '
        'plotted time axis: random windows, windows starting where fs*t truncates below the sample index, windows with no '
        'complete cycle, windows ending exactly on a cycle boundary); plot_cyclepoints_array / plot_cyclepoints_df with the four '
        'kind switches; plot_burst_detect_summary / Bycycle.plot with plot_only_result and interp settings; Line2D data and '
        'masked arrays are read back from the Axes and mapped to sample indices. non-trivial = a window with x-limits that '
        'contains at least one marker / one labelled cycle')
ASSUMPTIONS = ['matplotlib rendering itself is trusted; only the data handed to the artists is checked (partial)']
TRUST = ['sample index of a drawn x value = round(x * fs)']


def cases(rng, tier):
    out = []
    n = 60 if tier == 'quick' else 600
    for _ in range(n):
        s = gen.signal(rng, kind=rng.choice(['sparse', 'bursty', 'sum', 'sine', 'asym']), max_len=420)
        ln = len(s['sig'])
        fs = s['fs']
        mode = rng.choice(['none', 'grid', 'grid', 'trunc', 'tiny', 'cycle_end'])
        out.append({'kind': 'plot/' + mode, 'sig': gen.hexlist(s['sig']), 'fs': fs, 'f_range': list(s['f_range']),
                    'center': rng.choice(['peak', 'trough']), 'mode': mode, 'a': rng.randint(1, ln // 2), 'w': rng.randint(3, ln // 2),
                    'what': rng.choice(['array', 'df', 'summary', 'summary', 'object']),
                    'switch': [rng.random() < 0.8 for _ in range(4)], 'plot_sig': rng.random() < 0.5,
                    'only_result': rng.random() < 0.4, 'interp': rng.random() < 0.6})
    # the window offset on its own: every start sample of several sampling rates
    for fs in [50.0, 64.0, 100.0, 128.0, 200.0, 250.0, 500.0, 1000.0, 30.0]:
        ks = range(0, 400) if tier == 'quick' else range(0, 5000)
        out.append({'kind': 'offset', 'fs': fs, 'ks': list(ks)})
    return out


def _xlim(c, times, df, side_cols):
    n = len(times)
    mode = c['mode']
    if mode == 'none':
        return None, 0, n
    a = min(c['a'], n - 3)
    if mode == 'trunc':
        bad = [k for k in range(1, n - 3) if int(times[k] * c['fs']) != k]
        if bad:
            a = bad[c['a'] % len(bad)]
    b = min(n - 1, a + c['w'])
    if mode == 'tiny':
        b = min(n - 1, a + 3)
    if mode == 'cycle_end' and len(df) > 1:
        ends = [int(v) for v in df[side_cols[1]].values if a + 2 < int(v) < n - 1]
        if ends:
            b = ends[c['w'] % len(ends)]
    return (float(times[a]), float(times[b])), a, b - a      # samples with times[a] <= t < times[b]


def _idx(x, fs):
    return int(round(float(x) * fs))


def run_impl(c):
    import matplotlib
    import matplotlib.pyplot as plt
    if c['kind'] == 'offset':
        # offsets used by the plots for a window starting at sample k: read through plot_cyclepoints_array
        from bycycle.plts import plot_cyclepoints_array
        fs = c['fs']
        n = max(c['ks']) + 6
        times = np.arange(n) / fs
        sig = np.arange(len(times), dtype=float)
        got = []
        ks = [k for k in c['ks'] if k + 4 < len(times)]
        for k in ks[::7] if len(ks) > 800 else ks:
            fig, ax = plt.subplots()
            try:
                plot_cyclepoints_array(sig, fs, peaks=np.array([k + 1, k + 2]), xlim=(float(times[k]), float(times[k + 4])), ax=ax, plot_sig=False)
                ys = [float(v) for v in ax.lines[0].get_ydata()]
                got.append([k, float(times[k]).hex(), ys])
            except Exception as e:
                got.append([k, float(times[k]).hex(), 'err:' + exc_kind(e)])
            plt.close(fig)
        return {'offsets': got}
    from bycycle.features import compute_features
    from bycycle.plts import plot_cyclepoints_array, plot_cyclepoints_df, plot_burst_detect_summary
    sig = gen.unhexlist(c['sig'])
    fs = c['fs']
    thr = {'amp_fraction_threshold': 0.1, 'amp_consistency_threshold': 0.4, 'period_consistency_threshold': 0.4,
           'monotonicity_threshold': 0.6, 'min_n_cycles': 2}
    try:
        df = compute_features(sig, fs, tuple(c['f_range']), center_extrema=c['center'], threshold_kwargs=dict(thr))
    except Exception as e:
        return {'skip': 'compute_features raised %s' % exc_kind(e)}
    sc = pipeline.sample_cols(c['center'])
    times = np.arange(len(sig)) / fs
    xlim, s0, nview = _xlim(c, times, df, (sc[1], sc[2]))
    out = {'s0': s0, 'n': nview, 'xlim': None if xlim is None else [float(xlim[0]).hex(), float(xlim[1]).hex()]}
    centres = [int(v) for v in df[sc[0]].values]
    sides = sorted(set(int(v) for v in np.append(df[sc[1]].values, df[sc[2]].values)))
    rises = [int(v) for v in df['sample_zerox_rise'].values]
    decays = [int(v) for v in df['sample_zerox_decay'].values]
    out['series_in'] = {'centres': centres, 'sides': sides, 'rises': rises, 'decays': decays}
    out['rows'] = [[int(df[sc[1]].iloc[i]), int(df[sc[2]].iloc[i]), bool(df['is_burst'].iloc[i]), int(df[sc[0]].iloc[i])] for i in range(len(df))]
    fig = None
    try:
        if c['what'] in ('array', 'df'):
            fig, ax = plt.subplots()
            sw = c['switch']
            if c['what'] == 'array':
                kw = {}
                names = []
                for flag, nm, vals in zip(sw, ['peaks', 'troughs', 'rises', 'decays'], [centres, sides, rises, decays]):
                    if flag:
                        kw[nm] = np.array(vals, dtype=int)
                        names.append(nm)
                if not names:
                    kw['peaks'] = np.array(centres, dtype=int)
                    names = ['peaks']
                plot_cyclepoints_array(sig, fs, plot_sig=c['plot_sig'], xlim=xlim, ax=ax, **kw)
                plotted = sig
            else:
                ext, zx = sw[0] or not sw[2], sw[2]
                plot_cyclepoints_df(df, sig, fs, plot_sig=c['plot_sig'], plot_extrema=ext, plot_zerox=zx, xlim=xlim, ax=ax)
                names = (['peaks', 'troughs'] if ext else []) + (['rises', 'decays'] if zx else [])
                plotted = sig
            lines = ax.lines[1:] if c['plot_sig'] else ax.lines
            out['series'] = {}
            for nm, ln in zip(names, lines):
                xs, ys = ln.get_xdata(), ln.get_ydata()
                out['series'][nm] = [[_idx(x, fs), bool(float(y) == float(plotted[_idx(x, fs)]) if 0 <= _idx(x, fs) < len(plotted) else False)]
                                     for x, y in zip(xs, ys)]
            out['n_series_lines'] = len(lines)
            out['names'] = names
        else:
            if c['what'] == 'object':
                from bycycle import Bycycle
                bm = Bycycle(center_extrema=c['center'], thresholds=dict(thr))
                bm.fit(sig, fs, tuple(c['f_range']))
                bm.plot(xlim=xlim, plot_only_results=c['only_result'], interp=c['interp'])
            else:
                plot_burst_detect_summary(df, sig, fs, dict(thr), xlim=xlim, plot_only_result=c['only_result'], interp=c['interp'])
            fig = plt.gcf()
            axes = fig.axes
            l0 = axes[0].lines
            from scipy.stats import zscore
            z = zscore(sig)
            tx = l0[0].get_xdata()
            out['view_first'] = _idx(tx[0], fs)
            out['view_len'] = len(tx)
            burst = l0[1].get_ydata()
            m = np.ma.getmaskarray(burst)
            out['mask'] = coqio.mask_of([not bool(v) for v in m])
            out['mask_len'] = len(m)
            out['markers'] = {}
            for nm, ln in zip(['peaks', 'troughs'], l0[2:4]):
                xs, ys = ln.get_xdata(), ln.get_ydata()
                out['markers'][nm] = [[_idx(x, fs), bool(abs(float(y) - float(z[_idx(x, fs)])) < 1e-12) if 0 <= _idx(x, fs) < len(z) else False]
                                      for x, y in zip(xs, ys)]
            if not c['only_result']:
                panels = []
                keys = [k for k in thr if k != 'min_n_cycles']
                for k, axp in zip(keys, axes[1:]):
                    ls = axp.lines
                    pts = [[_idx(x, fs), float(y)] for x, y in zip(ls[0].get_xdata(), ls[0].get_ydata())]
                    tl = [float(v) for v in ls[1].get_ydata()]
                    panels.append({'key': k, 'points': pts, 'thr_line': tl})
                out['panels'] = panels
                out['panel_values'] = {k: [float(v) if not math.isnan(float(v)) else None for v in df[k.replace('_threshold', '')].values]
                                       for k in keys}
    except Exception as e:
        out['err'] = exc_kind(e)
        out['msg'] = str(e)[:160]
    finally:
        plt.close('all')
    return out


def _expect_markers(pts, s0, n):
    """Cyclepoints STRICTLY inside the view (its first and last sample are not constrained by the property)."""
    return [p for p in pts if s0 < p < s0 + n - 1]


def _strict(got, s0, n):
    return [g for g in got if s0 < g[0] < s0 + n - 1]


def _kept_rows(c, o):
    """Rows limit_df keeps for this window (binary64 comparison of the side extrema with start*fs / stop*fs, as C18)."""
    if o['xlim'] is None:
        return list(o['rows'])
    a, b = float.fromhex(o['xlim'][0]), float.fromhex(o['xlim'][1])
    return [r for r in o['rows'] if r[0] >= a * c['fs'] and r[1] <= b * c['fs']]


def oracle(c, o):
    if 'skip' in o:
        return None
    if c['kind'] == 'offset':
        for k, th, ys in o['offsets']:
            if isinstance(ys, str):
                return 'window starting at sample %d (fs=%s): %s' % (k, c['fs'], ys)
            if ys != [float(k + 1), float(k + 2)]:
                return 'window starting at sample %d (fs=%s): markers for samples %d,%d drawn with signal values %s' % (
                    k, c['fs'], k + 1, k + 2, ys)
        return None
    if 'err' in o:
        return '%s raised %s (%s) for xlim=%s' % (c['what'], o['err'], o.get('msg'), o['xlim'])
    s0, n = o['s0'], o['n']
    si = o['series_in']
    src = {'peaks': si['centres'], 'troughs': si['sides'], 'rises': si['rises'], 'decays': si['decays']}
    if c['what'] in ('array', 'df'):
        for nm in o['names']:
            got = o['series'].get(nm)
            if got is None:
                return 'series %s not drawn' % nm
            want = _expect_markers(src[nm], s0, n)
            if any(not (s0 <= g[0] <= s0 + n - 1) for g in got):
                return '%s marker outside the view' % nm
            if [g[0] for g in _strict(got, s0, n)] != want:
                return '%s markers at samples %s, expected %s (view starts at sample %d, %d samples)' % (nm, [g[0] for g in got][:8], want[:8], s0, n)
            if not all(g[1] for g in got):
                return '%s markers not at the plotted signal value of their sample' % nm
        return None
    # summary
    if o['view_first'] != s0 or o['view_len'] != n:
        return 'view is samples [%d, +%d), expected [%d, +%d)' % (o['view_first'], o['view_len'], s0, n)
    for nm in ('peaks', 'troughs'):
        got = o['markers'][nm]
        want = _expect_markers(src[nm], s0, n)
        # the summary limits the table first: only extrema of the cycles kept by limit_df are drawn
        inside = _kept_rows(c, o)
        allowed = set([r[3] for r in inside]) if nm == 'peaks' else set([r[0] for r in inside] + [r[1] for r in inside])
        want = [p for p in want if p in allowed]
        if [g[0] for g in _strict(got, s0, n)] != want:
            return 'summary %s markers at samples %s, expected %s (view [%d,+%d))' % (nm, [g[0] for g in got][:8], want[:8], s0, n)
        if not all(g[1] for g in got):
            return 'summary %s markers not at the plotted (z-scored) signal value of their sample' % nm
    mask = [(o['mask'] >> i) & 1 for i in range(o['mask_len'])]
    allowed, required = set(), set()
    for la, nx, lab, ce in o['rows']:
        if lab:
            allowed.update(range(la, nx + 1))
            if s0 <= la and nx <= s0 + n - 1:
                required.update(range(la, nx + 1))
    for i, b in enumerate(mask):
        smp = s0 + i
        if b and smp not in allowed:
            return 'highlighted sample %d does not belong to a cycle labelled is_burst' % smp
        if not b and smp in required:
            return 'sample %d of a bursting cycle lying entirely inside the view is not highlighted' % smp
    if 'panels' in o:
        for p in o['panels']:
            col = o['panel_values'][p['key']]
            thr = {'amp_fraction_threshold': 0.1, 'amp_consistency_threshold': 0.4, 'period_consistency_threshold': 0.4,
                   'monotonicity_threshold': 0.6}[p['key']]
            if not all(abs(v - thr) < 1e-12 for v in p['thr_line']):
                return 'threshold line of %s at %s, expected %s' % (p['key'], p['thr_line'], thr)
            if c['interp']:
                cent = {r[3]: i for i, r in enumerate(o['rows'])}
                for x, y in p['points']:
                    if x not in cent:
                        return 'panel %s: point at sample %d which is not a cycle centre' % (p['key'], x)
                    v = col[cent[x]]
                    if not ((v is None and math.isnan(y)) or (v is not None and abs(v - y) < 1e-12)):
                        return 'panel %s: value %r at centre %d, table has %r' % (p['key'], y, x, v)
    return None


def nontrivial(c, o):
    if c['kind'] == 'offset':
        return True
    if 'series' in o:
        return c['mode'] != 'none' and any(len(v) > 0 for v in o['series'].values())
    return 'mask' in o and c['mode'] != 'none' and o['mask'] != 0


def kind_of(c, o):
    return c['kind'] + ('/' + c['what'] if 'what' in c else '') + ('/err' if 'err' in o else '')


def stream_of(c):
    if c['kind'] == 'offset':
        return 'offset'
    return 'markers' if c.get('what') in ('array', 'df') else 'mask'


def coq_case(c, o):
    if 'skip' in o or 'err' in o:
        return None
    if c['kind'] == 'offset':
        ok = [g for g in o['offsets'] if not isinstance(g[2], str)]
        if not ok:
            return None
        # offset observed through the plot: marker of sample k+1 is drawn with value (k + (k+1 - off))
        obs = [int(2 * g[0] + 1 - g[2][0]) for g in ok]
        return '(%s, %s)' % (coqio.fl(c['fs']), coqio.flist([float.fromhex(g[1]) for g in ok])), coqio.zlist(obs)
    if c['what'] in ('array', 'df'):
        nm = o['names'][0]
        si = o['series_in']
        src = {'peaks': si['centres'], 'troughs': si['sides'], 'rises': si['rises'], 'decays': si['decays']}[nm]
        got = [g[0] - o['s0'] for g in _strict(o['series'][nm], o['s0'], o['n'])]
        src = [p for p in src if p != o['s0']]
        return '(%d%%Z, %d%%nat, %d%%Z, %s)' % (o['s0'], o['n'], o['s0'], coqio.zlist(src)), coqio.zlist(got)
    inside = _kept_rows(c, o)
    rows = coqio.lst(['((%d%%Z, %d%%Z), %s)' % (r[0], r[1], coqio.B(r[2])) for r in inside]) if inside else 'nil'
    return '(%d%%nat, %d%%Z, %s)' % (o['mask_len'], o['s0'], rows), coqio.barr(o['mask_len'], o['mask'])
