"""C07 — amplitude burst labels follow the dual-threshold rule (pipeline model, reference detector mask)."""
from harness import pipeline
from harness.pipeline import extra_evidence, TRUST
from harness.props import c07_tables as T

PROP = 'C07'
PROPS_FILE = 'Props/C07.v'
RULE = ('compute_features(burst_method="amp") on generated signals (sparse / bursty / mixed kinds and scaled, dc-offset, '
        'chirp, quantised ones), both centrings, amp_threshes grid, burst_fraction_threshold in {0,.25,.5,.75,1} or (30 %, when such a row exists) '
        'the burst_fraction of a partially bursting row of a first run and its neighbours one ulp below / above, '
        'min_n_cycles supplied via thresholds / burst options / both / neither (and min_burst_duration, and the '
        'detector\'s own filter_kwargs n_cycles / n_seconds); option dictionaries in a random key order; reference mask '
        'from neurodsp with the documented count. Routing stream (kind route/*, 60 quick / 600 thorough): rhythm in '
        'bursts of 1-5 periods, the two dictionaries\' counts on either side of the burst length, threshold in {.25,.5,.75,1}, no '
        'min_burst_duration; the model receives the two RAW counts and resolves them itself. non-trivial = >= 3 rows and '
        'a label of each value; for the routing stream in addition: another plausible count (the other dictionary\'s '
        'value, the default 3) would change the reference detector mask or the labels')
RULE = RULE + '. Table stream (kind table_amp, 700 quick / 7000 thorough): ' + T.RULE
ASSUMPTIONS = ['signals finite',
               'table stream: NaN fractions, thresholds outside [0,1] / NaN, negative counts, empty tables and the dtype of the '
               'label column are compared with the model only (outside the statement)',
               'options of the method that is not selected: a consistency threshold (amp_fraction_threshold, ...) in '
               'threshold_kwargs together with burst_method="amp" is rejected by the library (TypeError of detect_bursts_amp, '
               'compute_features and Bycycle alike) and is outside the quantifier, so it is not generated; the converse '
               '(burst_kwargs together with burst_method="cycles", accepted and ignored) is generated for the consistency '
               'method (pipeline.other_method_options, judged by C06)']
COQ_STREAMS = {'pipe': (pipeline.COQ_HEADER, pipeline.COQ_RUNNER, pipeline.COQ_TYPES, pipeline.SHARD),
               T.STREAM: T.COQ_STREAM}


def stream_of(c):
    return T.STREAM if T.mine(c) else 'pipe'


def cases(rng, tier):
    n = 150 if tier == 'quick' else 1500
    kinds = ['sparse', 'sparse', 'sparse', 'bursty', 'bursty', 'sum', 'sine', 'zeroed', 'noise', 'scaled', 'dc', 'chirp', 'quant']
    out = [pipeline.gen_case(rng, tier, methods=('amp',), kinds=kinds, fek_prob=0.4, amp_wide=True) for _ in range(n)]
    out += [pipeline.gen_routing_case(rng, tier) for _ in range(60 if tier == 'quick' else 600)]
    out.extend(T.cases(rng, tier))
    return out


def run_impl(c):
    return T.run_impl(c) if T.mine(c) else pipeline.run_pipe(c)


def oracle(c, o):
    return T.oracle(c, o) if T.mine(c) else pipeline.oracle_labels_amp(c, o)


def kind_of(c, o):
    return T.kind_of(c, o) if T.mine(c) else pipeline.kind_of(c, o)


def coq_case(c, o):
    return T.coq_case(c, o) if T.mine(c) else pipeline.coq_case(c, o)


def shrink(c):
    if T.mine(c):
        return T.shrink(c)
    return pipeline.shrink(c) if hasattr(pipeline, 'shrink') else []


def nontrivial(c, o):
    if T.mine(c):
        return T.nontrivial(c, o)
    if not pipeline.nontrivial_table(c, o, need_labels=True):
        return False
    if c.get('routing'):
        r = o.get('routing') or {}
        return bool(r.get('det') or r.get('filt'))
    return True
