"""C07 — amplitude burst labels follow the dual-threshold rule (pipeline model, reference detector mask)."""
from harness import pipeline
from harness.pipeline import COQ_HEADER, COQ_RUNNER, COQ_TYPES, SHARD, coq_case, kind_of, TRUST

PROP = 'C07'
PROPS_FILE = 'Props/C07.v'
RULE = ('compute_features(burst_method="amp") on bursty / mixed generated signals, both centrings, amp_threshes grid, '
        'burst_fraction_threshold in {0,.25,.5,.75,1}, min_n_cycles supplied via thresholds / burst options / both / neither '
        '(and min_burst_duration); reference mask from neurodsp with the resolved count; a second call re-using the same '
        'option dict objects; non-trivial = >= 3 rows and a label of each value')
ASSUMPTIONS = ['signals finite']


def cases(rng, tier):
    n = 150 if tier == 'quick' else 1500
    return [pipeline.gen_case(rng, tier, methods=('amp',), kinds=['sparse', 'sparse', 'sparse', 'bursty', 'sum', 'sine', 'zeroed', 'noise'],
                              fek_prob=0.4) for _ in range(n)]


run_impl = pipeline.run_pipe


def oracle(c, o):
    return pipeline.oracle_labels_amp(c, o)


def nontrivial(c, o):
    return pipeline.nontrivial_table(c, o, need_labels=True)
