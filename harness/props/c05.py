"""C05 — burst features equal their documented definitions.
Streams: (a) whole pipeline (cycles method) vs Model/Features.v; (b) the individual functions with all three
directions on synthetic tables (zero / negative / equal / NaN flank voltages) vs Model/BurstFeat.v; (c) compute_monotonicity
on hand-made signals (flat, strictly monotone, plateau, zig-zag, wrong-way and two-sample flanks; both centrings) vs
Model/BurstFeat.v monotonicity_row (runner in Model/TableRuns.v).
About a third of the synthetic tables of (b) and (c) carry non-default row labels (a real `iloc` slice or boolean
selection out of a longer table, labels with gaps, shuffled, strings, repeated: tablelayout.apply_rows) and a share of
them goes through `compute_burst_features(table, sig)` instead of the individual functions; results are read by
position.  The same tables are also handed to `compute_burst_features(..., burst_method='amp')` where the reference
detector accepts the hand-made signal (harness-level comparison of burst_fraction by position)."""
import math
import warnings
import numpy as np
from harness import coqio, pipeline, tablelayout, ref
from harness.core import exc_kind
from harness.pipeline import TRUST

PROP = 'C05'
PROPS_FILE = 'Props/C05.v'
COQ_STREAMS = {
    'pipe': (pipeline.COQ_HEADER, pipeline.COQ_RUNNER, pipeline.COQ_TYPES, pipeline.SHARD),
    'funcs': ('From Coq Require Import List ZArith NArith Floats.PrimFloat. Import ListNotations.\n'
              'From ByC Require Import Base.Result Harness.Compare Model.BurstFeat Model.BurstFeatRun.\nOpen Scope float_scope.',
              'bad_burst_funcs', ('bf_in', 'bf_out'), 200),
    'mono': ('From Coq Require Import List ZArith NArith Floats.PrimFloat. Import ListNotations.\n'
             'From ByC Require Import Base.Result Harness.Compare Model.BurstFeat Model.TableRuns.\nOpen Scope float_scope.',
             'bad_monotonicity', ('mono_in', 'list float'), 200),
}
RULE = ('(a) compute_features(burst_method="cycles") on generated signals of all 12 kinds (tie-rich quantised/clipped ones '
        'weighted up), both centrings; (b) compute_amp_fraction / compute_amp_consistency / compute_period_consistency with '
        'direction in {both,next,last} on synthetic tables of both centrings with positive, zero, negative, equal and NaN '
        'flank voltages and tied amplitudes; (c) compute_monotonicity on hand-made signals whose flanks are strictly '
        'monotone, flat, plateau-rich, zig-zag, wrong-way, one-ulp steps or two samples long, both centrings; about 40 % of '
        'the synthetic tables of (b) and (c) are handed over with their columns in another order (sorted by name, '
        'reversed, shuffled), some with an unrelated extra column; about 35 % of them carry non-default row labels (cut '
        'out of a longer table with iloc / a boolean mask and not re-labelled, labels with gaps, shuffled label values, '
        'string labels, labels repeated as after pd.concat; rows always in cycle order) and results are compared by '
        'position; about a fifth of the tables of (b) (direction both) and 30 % of (c) are complete shape tables handed '
        'to compute_burst_features(table, sig) (burst_method cycles; for (c) also amp with fs / f_range in burst_kwargs, '
        'compared with the neurodsp detector by position where it accepts the signal) instead of the single functions; '
        'non-trivial = >= 3 rows (a, b), a row with monotonicity strictly between 0 and 1 (c)')
ASSUMPTIONS = ['signals finite', 'sign of zero results not compared (-0 == +0)',
               'where the statement defines nothing, the oracle does not judge and only the model comparison applies: '
               'a table without cycles (the model pins IndexError), amp_consistency of a cycle one of whose involved '
               'min/max ratios is NaN (0/0, NaN or infinite flank voltage), amp_fraction of a table containing a NaN '
               'amplitude',
               'row labels are not an input of the model and not part of the statement ("for every cycle table"): a table '
               'is the sequence of its rows; every result is read by position (`.to_numpy()` of the returned column)',
               'burst_fraction of compute_burst_features(burst_method="amp") is not a C05 feature: a difference from the '
               'reference detector there is reported through the model comparison (harness_diff), not by the oracle']
DIRS = {'both': 'Both', 'next': 'Next', 'last': 'Last'}


def stream_of(c):
    return 'mono' if c['kind'].startswith('synthetic-mono') else 'funcs' if c['kind'].startswith('synthetic') else 'pipe'


def cases(rng, tier):
    n = 90 if tier == 'quick' else 900
    out = [pipeline.gen_case(rng, tier, methods=('cycles',),
                             kinds=['quant', 'quant', 'clip', 'clip', 'sine', 'asym', 'bursty', 'noise', 'sum', 'zeroed', 'dc',
                                    'chirp', 'scaled', 'sparse'], fek_prob=0.4) for _ in range(n)]
    m = 1200 if tier == 'quick' else 12000
    for _ in range(m):
        nrow = rng.choice([0, 1, 2, 3, 4, 5, 7, 10])
        style = rng.choice(['pos', 'pos', 'mixed', 'ties', 'nan'])

        def v():
            if style == 'pos':
                return rng.choice([0.5, 1.0, 1.5, 2.0, 3.0, 0.1])
            if style == 'ties':
                return rng.choice([1.0, 1.0, 2.0])
            if style == 'nan':
                return rng.choice([1.0, 2.0, float('nan'), 0.0])
            return rng.choice([1.0, 2.0, 0.0, -1.0, -0.5, 3.0, 0.0])
        out.append({'kind': 'synthetic/' + style, 'peak': rng.random() < 0.5, 'direction': rng.choice(['both', 'next', 'last']),
                    'rises': [v() for _ in range(nrow)], 'decays': [v() for _ in range(nrow)],
                    'periods': [rng.choice([8, 10, 10, 12, 16, 20]) for _ in range(nrow)],
                    'amps': [v() for _ in range(nrow)], 'index': rng.choice(['default', 'default', 'offset', 'reversed'])})
    for _ in range(400 if tier == 'quick' else 4000):
        out.append(_gen_mono(rng))
    for c in out:       # column layout of the synthetic tables, drawn last so that the tables are those of earlier runs
        if c['kind'].startswith('synthetic'):
            c['cols'] = tablelayout.gen_layout(rng)
    for c in out:       # row labels and the entry point, drawn after everything else for the same reason
        if c['kind'].startswith('synthetic'):
            c['rowlab'] = tablelayout.gen_rows(rng)
            nrow = len(c['rows']) if 'rows' in c else len(c['rises'])
            if c['kind'].startswith('synthetic-mono'):
                via = rng.random() < 0.3
            else:
                via = rng.random() < 0.6 and c['direction'] == 'both' and nrow > 0
            if via:
                c['via'] = 'cbf'
                # how min_n_cycles reaches the amp call (WP17 lesson 2: numpy integer scalars besides Python ints)
                c['amp_n'] = [rng.choice(['int', 'int8', 'int16', 'int32', 'int64', 'uint8', 'uint16', 'uint32', 'uint64',
                                          'intp', 'absent']), rng.choice([0, 1, 2, 3])]
    return out


MONO_STYLES = ['strict', 'strict', 'flat', 'plateau', 'zigzag', 'reverse', 'random', 'ulp']


def _gen_mono(rng):
    """A hand-made signal and a cycle table on it. Extrema e_0 < e_1 < ... ; row i = (last e_2i, centre e_2i+1,
    next e_2i+2). Flank j rises iff (peak-centred and j even) or (trough-centred and j odd)."""
    peak = rng.random() < 0.5
    nrow = rng.choice([1, 1, 2, 3, 4, 6])
    pos = [rng.randint(0, 3)]
    vals = [rng.choice([0.0, -1.0, 0.5, 100.0])]
    vals = vals * (pos[0] + 1)
    table_style = rng.choice(MONO_STYLES + ['mixed', 'mixed', 'mixed'])
    for j in range(2 * nrow):
        ln = rng.choice([1, 1, 2, 3, 5, 8, 13])       # 1 = a two-sample flank
        up = (j % 2 == 0) == peak
        d = 1.0 if up else -1.0
        style = rng.choice(MONO_STYLES) if table_style == 'mixed' else table_style
        for k in range(ln):
            cur = vals[-1]
            if style == 'strict':
                nxt = cur + d * rng.choice([1.0, 0.5, 0.25])
            elif style == 'flat':
                nxt = cur
            elif style == 'plateau':
                nxt = cur + d * rng.choice([1.0, 0.0, 0.0])
            elif style == 'zigzag':
                nxt = cur + (d if k % 2 == 0 else -d)
            elif style == 'reverse':
                nxt = cur - d * rng.choice([1.0, 0.5])
            elif style == 'ulp':
                nxt = math.nextafter(cur, cur + d) if rng.random() < 0.7 else cur
            else:
                nxt = cur + rng.choice([-1.0, 0.0, 0.0, 1.0])
            vals.append(nxt)
        pos.append(pos[-1] + ln)
    vals.extend([vals[-1]] * rng.randint(0, 3))
    scale = rng.choice([1.0, 1.0, 1.0, 2.0 ** -30, 2.0 ** 20])      # powers of two: order and ties are kept
    return {'kind': 'synthetic-mono/' + table_style, 'peak': peak, 'sig': [float(v * scale).hex() for v in vals],
            'rows': [[pos[2 * i], pos[2 * i + 1], pos[2 * i + 2]] for i in range(nrow)],
            'index': rng.choice(['default', 'default', 'offset'])}


def _f(xs):
    return [None if (isinstance(x, float) and math.isnan(x)) else float(x) for x in xs]


def _uf(xs):
    return [float('nan') if x is None else float(x) for x in xs]


def run_impl(c):
    if not c['kind'].startswith('synthetic'):
        return pipeline.run_pipe(c)
    if c['kind'].startswith('synthetic-mono'):
        return _run_mono(c)
    import pandas as pd
    from bycycle.features.burst import compute_amp_fraction, compute_amp_consistency, compute_period_consistency
    n = len(c['rises'])
    df = pd.DataFrame({'volt_rise': np.array(_uf(c['rises']), dtype=float), 'volt_decay': np.array(_uf(c['decays']), dtype=float),
                       'volt_amp': np.array(_uf(c['amps']), dtype=float), 'period': np.array(c['periods'], dtype=int),
                       ('sample_peak' if c['peak'] else 'sample_trough'): np.arange(n, dtype=int)})
    sig = None
    if c.get('via') == 'cbf':
        # a complete shape table: cycle i spans samples 4i .. 4i+4 of a zig-zag signal (monotonicity is not judged here)
        side = 'trough' if c['peak'] else 'peak'
        df['sample_' + ('peak' if c['peak'] else 'trough')] = 4 * np.arange(n, dtype=int) + 2
        df['sample_last_' + side] = 4 * np.arange(n, dtype=int)
        df['sample_next_' + side] = 4 * np.arange(n, dtype=int) + 4
        sig = np.array([(1.0 if (k // 2) % 2 == (0 if c['peak'] else 1) else -1.0) * (k % 2 + 1) for k in range(4 * n + 1)])
    df = _labelled(df, c)
    df = tablelayout.apply_layout(df, c.get('cols'))       # columns are addressed by name, wherever they stand
    out = {}
    if sig is not None:
        return _run_cbf_funcs(c, df, sig, n)
    try:
        out['af'] = _f([float(x) for x in np.asarray(compute_amp_fraction(df))])
    except Exception as e:
        out['af_err'] = exc_kind(e)
    try:
        out['ac'] = _f([float(x) for x in compute_amp_consistency(df, direction=c['direction'])])
    except Exception as e:
        out['ac_err'] = exc_kind(e)
    try:
        out['pc'] = _f([float(x) for x in compute_period_consistency(df, direction=c['direction'])])
    except Exception as e:
        out['pc_err'] = exc_kind(e)
    return out


def _labelled(df, c):
    """Row labels of the table handed over: the rows stay in cycle order."""
    if c.get('rowlab'):
        return tablelayout.apply_rows(df, c['rowlab'])
    n = len(df)
    if c.get('index') == 'offset':
        df.index = np.arange(n) + 5
    elif c.get('index') == 'reversed':
        df.index = np.arange(n)[::-1]
    return df


def _column(res, name, n):
    """A column of the returned table, by position."""
    a = np.asarray(res[name].to_numpy() if hasattr(res[name], 'to_numpy') else res[name], dtype=float)
    if a.ndim != 1 or len(a) != n or len(res) != n:
        raise ValueError('shape')
    return a


def _run_cbf_funcs(c, df, sig, n):
    from bycycle.features.burst import compute_burst_features
    snap = df.copy(deep=True)
    try:
        res = compute_burst_features(df, sig)
    except Exception as e:
        return {'af_err': exc_kind(e), 'ac_err': exc_kind(e), 'pc_err': exc_kind(e)}
    out = {}
    for key, name in (('af', 'amp_fraction'), ('ac', 'amp_consistency'), ('pc', 'period_consistency')):
        try:
            out[key] = _f([float(x) for x in _column(res, name, n)])
        except Exception as e:
            out[key + '_err'] = exc_kind(e)
    if not (list(df.index) == list(snap.index) and list(df.columns) == list(snap.columns)
            and all(tablelayout.same_column(df[k], snap[k]) for k in snap.columns)):
        out['harness_diff'] = 'compute_burst_features changed the table it was given'
    return out


def _amp_count(c):
    t, v = c.get('amp_n', ['absent', 3])
    return None if t == 'absent' else int(v) if t == 'int' else getattr(np, t)(v)


def _run_cbf_mono(c, df, sig, rows):
    """The hand-made table completed to a shape table and handed to compute_burst_features, both methods."""
    from bycycle.features.burst import compute_burst_features
    la, ce, nx = (np.array([r[k] for r in rows], dtype=int) for k in range(3))
    a, b = np.abs(sig[ce] - sig[la]), np.abs(sig[ce] - sig[nx])
    df['volt_rise'], df['volt_decay'] = (a, b) if c['peak'] else (b, a)
    df['volt_amp'] = (a + b) / 2
    df['period'] = nx - la
    df = tablelayout.apply_layout(_labelled(df, c), c.get('cols'))
    snap = sig.copy()
    try:
        res = compute_burst_features(df, sig)
        mo = _column(res, 'monotonicity', len(rows))
    except Exception as e:
        return {'mo_err': exc_kind(e)}
    out = {'mo': _f([float(x) for x in mo])}
    # burst_method='amp' on the same table: burst_fraction[i] = mean of the detector's mask over last .. next (incl.)
    fs, f_range = 1000.0, (100.0, 300.0)
    cnt = _amp_count(c)
    try:
        with warnings.catch_warnings():
            warnings.simplefilter('ignore')
            mask = np.array(ref.ref_dualthresh(sig, fs, f_range, min_n_cycles=3 if cnt is None else int(cnt)), dtype=float)
        if np.isnan(mask).any() or len(mask) != len(sig):
            raise ValueError('reference unusable')
    except Exception:
        out['amp'] = 'reference detector rejects the signal'
    else:
        bk = {'fs': fs, 'f_range': f_range}
        if cnt is not None:
            bk['min_n_cycles'] = cnt
        bk0 = dict(bk)
        try:
            with warnings.catch_warnings():
                warnings.simplefilter('ignore')
                res = compute_burst_features(df, sig, burst_method='amp', burst_kwargs=bk)
            bf = _column(res, 'burst_fraction', len(rows))
            want = np.array([mask[r[0]:r[2] + 1].mean() for r in rows])
            bad = [i for i in range(len(rows)) if not pipeline.close(float(bf[i]), float(want[i]))]
            out['amp'] = 'compared'
            if bad:
                out['harness_diff'] = 'burst_fraction[%d] = %r, the reference detector gives %r' % (bad[0], float(bf[bad[0]]), float(want[bad[0]]))
            elif list(bk.items()) != list(bk0.items()):
                out['harness_diff'] = 'burst_kwargs changed by compute_burst_features'
        except Exception as e:
            out['amp'] = 'raised'
            out['harness_diff'] = 'compute_burst_features(burst_method="amp") raised %s where the reference detector works' % exc_kind(e)
    out['sig_unchanged'] = bool(np.array_equal(sig, snap))
    return out


def _run_mono(c):
    import pandas as pd
    from bycycle.features.burst import compute_monotonicity
    sig = np.array([float.fromhex(h) for h in c['sig']], dtype=float)
    side = 'trough' if c['peak'] else 'peak'
    centre = 'peak' if c['peak'] else 'trough'
    rows = c['rows']
    df = pd.DataFrame({'sample_last_' + side: np.array([r[0] for r in rows], dtype=int),
                       'sample_' + centre: np.array([r[1] for r in rows], dtype=int),
                       'sample_next_' + side: np.array([r[2] for r in rows], dtype=int)})
    if c.get('via') == 'cbf':
        return _run_cbf_mono(c, df, sig, rows)
    df = tablelayout.apply_layout(_labelled(df, c), c.get('cols'))
    snap = sig.copy()
    try:
        mo = np.asarray(compute_monotonicity(df, sig), dtype=float)
    except Exception as e:
        return {'mo_err': exc_kind(e)}
    if mo.ndim != 1 or len(mo) != len(rows):
        return {'mo_err': 'shape %s' % (mo.shape,)}
    return {'mo': _f([float(x) for x in mo]), 'sig_unchanged': bool(np.array_equal(sig, snap))}


def _oracle_mono(c, o):
    """monotonicity = mean of (fraction of strictly increasing steps in the rise) and (fraction of strictly decreasing
    steps in the decay); rise and decay run from extremum to extremum, both end points included."""
    if 'mo_err' in o:
        return 'compute_monotonicity failed on a valid table: %s' % o['mo_err']
    sig = [float.fromhex(h) for h in c['sig']]
    mo = _uf(o['mo'])
    for i, (la, ce, nx) in enumerate(c['rows']):
        a, b = sig[la:ce + 1], sig[ce:nx + 1]
        rise, decay = (a, b) if c['peak'] else (b, a)
        up = sum(1 for x, y in zip(rise, rise[1:]) if y > x) / (len(rise) - 1)
        dn = sum(1 for x, y in zip(decay, decay[1:]) if y < x) / (len(decay) - 1)
        want = (up + dn) / 2
        if not pipeline.close(mo[i], want):
            return 'monotonicity[%d] = %r, definition gives %r (rise steps %r, decay steps %r)' % (i, mo[i], want, up, dn)
        if not (0 <= mo[i] <= 1):
            return 'monotonicity[%d] = %r outside [0,1]' % (i, mo[i])
    if not o.get('sig_unchanged', True):
        return 'input signal modified'
    return None


def _ratio(a, b):
    if math.isnan(a) or math.isnan(b):
        return float('nan')
    lo, hi = min(a, b), max(a, b)
    with np.errstate(all='ignore'):
        return float(np.float64(lo) / np.float64(hi))


def oracle(c, o):
    if not c['kind'].startswith('synthetic'):
        return pipeline.oracle_burstfeat(c, o)
    if c['kind'].startswith('synthetic-mono'):
        return _oracle_mono(c, o)
    n = len(c['rises'])
    R, D, P, A = _uf(c['rises']), _uf(c['decays']), c['periods'], _uf(c['amps'])
    if n == 0:
        return None          # a table without cycles: the statement defines nothing (the model pins IndexError)
    for k in ('af_err', 'ac_err', 'pc_err'):
        if k in o:
            return '%s: raised %s on a non-empty table' % (k, o[k])
    # temporal flank sequence (centring-free definition)
    first, second = (R, D) if c['peak'] else (D, R)
    d = c['direction']
    af, ac, pc = _uf(o['af']), _uf(o['ac']), _uf(o['pc'])
    if len(af) != n or len(ac) != n or len(pc) != n:
        return 'a feature column does not have one value per cycle'
    ranked = not any(math.isnan(w) for w in A)     # the rank of / among NaN amplitudes is not defined by the statement
    for i in range(n):
        if ranked:
            want = (sum(1 for w in A if w < A[i]) + (sum(1 for w in A if w == A[i]) + 1) / 2) / n
            if not pipeline.close(af[i], want):
                return 'amp_fraction[%d] = %r, average rank / n = %r' % (i, af[i], want)
            if not (0 <= af[i] <= 1):
                return 'amp_fraction[%d] = %r outside [0,1]' % (i, af[i])
        if i == 0 or i == n - 1:
            if not (math.isnan(ac[i]) and math.isnan(pc[i])):
                return 'consistency of an end cycle is not NaN'
            continue
        cur = _ratio(first[i], second[i])
        lst = _ratio(second[i - 1], first[i])
        nxt = _ratio(second[i], first[i + 1])
        sel = {'both': [cur, nxt, lst], 'next': [cur, nxt], 'last': [cur, lst]}[d]
        if not any(math.isnan(x) for x in sel):
            # every involved min/max ratio is defined: the smallest of them, clamped at 0. (With an undefined ratio
            # - 0/0, NaN flank - the statement says nothing; the NaN handling is pinned by the model comparison.)
            want = max(0.0, min(sel))
            if not pipeline.close(ac[i], want):
                return 'amp_consistency[%d] (%s) = %r, definition gives %r' % (i, d, ac[i], want)
        pl, pn = _ratio(P[i], P[i - 1]), _ratio(P[i], P[i + 1])
        want = {'both': min(pl, pn), 'next': pn, 'last': pl}[d]
        if not pipeline.close(pc[i], want):
            return 'period_consistency[%d] (%s) = %r, definition gives %r' % (i, d, pc[i], want)
        if not (0 <= pc[i] <= 1):
            return 'period_consistency[%d] = %r outside [0,1] with positive periods' % (i, pc[i])
        if all(0 < x < float('inf') for x in (first[i], second[i], second[i - 1], first[i + 1])) and not (0 <= ac[i] <= 1):
            return 'amp_consistency outside [0,1] with positive flank voltages'
    return None


def nontrivial(c, o):
    if not c['kind'].startswith('synthetic'):
        return pipeline.nontrivial_table(c, o)
    if c['kind'].startswith('synthetic-mono'):
        return 'mo' in o and any(x is not None and 0 < x < 1 for x in o['mo'])
    return len(c['rises']) >= 3 and 'ac' in o


def kind_of(c, o):
    if not c['kind'].startswith('synthetic'):
        return pipeline.kind_of(c, o)
    if o and o.get('amp'):
        _AMP[o['amp']] = _AMP.get(o['amp'], 0) + 1
    if c.get('rowlab'):
        _AMP['tables_with_non_default_row_labels'] = _AMP.get('tables_with_non_default_row_labels', 0) + 1
    return (c['kind'] + ('/via-compute_burst_features' if c.get('via') else '') + tablelayout.rows_tag(c.get('rowlab'))
            + tablelayout.tag(c.get('cols')))


_AMP = {}


def extra_evidence():
    return {'compute_burst_features_on_hand_made_tables': dict(_AMP)}


def _res(o, key):
    if key + '_err' in o:
        return '(Err %s)' % pipeline.ERRMAP.get(o[key + '_err'], 'EOther')
    return '(Ok %s)' % coqio.flist(_uf(o[key]))


def coq_case(c, o):
    if not c['kind'].startswith('synthetic'):
        return pipeline.coq_case(c, o)
    if c['kind'].startswith('synthetic-mono'):
        if 'mo_err' in o:
            return None          # the model has no error for a valid table; the oracle has already reported it
        inp = '(%s, %s, %s)' % (coqio.B(c['peak']), coqio.flist([float.fromhex(h) for h in c['sig']]),
                                coqio.lst(['(%s, %s, %s)' % tuple(coqio.Z(x) + '%Z' for x in r) for r in c['rows']]))
        # a harness-level difference is sent as a result no model result equals (one value too many)
        return inp, coqio.flist(_uf(o['mo']) + ([2.0] if o.get('harness_diff') else []))
    if 'af_err' in o:
        return None
    inp = '(%s, %s, %s, %s, %s, %s)' % (coqio.B(c['peak']), DIRS[c['direction']], coqio.flist(_uf(c['rises'])),
                                        coqio.flist(_uf(c['decays'])), coqio.zlist(c['periods']), coqio.flist(_uf(c['amps'])))
    return inp, '(%s, %s, %s)' % (coqio.flist(_uf(o['af']) + ([2.0] if o.get('harness_diff') else [])), _res(o, 'ac'), _res(o, 'pc'))
