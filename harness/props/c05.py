"""C05 — burst features equal their documented definitions.
Streams: (a) whole pipeline (cycles method) vs Model/Features.v; (b) the individual functions with all three
directions on synthetic tables (zero / negative / equal / NaN flank voltages) vs Model/BurstFeat.v; (c) compute_monotonicity
on hand-made signals (flat, strictly monotone, plateau, zig-zag, wrong-way and two-sample flanks; both centrings) vs
Model/BurstFeat.v monotonicity_row (runner in Model/TableRuns.v)."""
import math
import numpy as np
from harness import coqio, pipeline, tablelayout
from harness.core import exc_kind
from harness.pipeline import TRUST

PROP = 'C05'
PROPS_FILE = 'Props/C05.v'
COQ_STREAMS = {
    'pipe': (pipeline.COQ_HEADER, pipeline.COQ_RUNNER, pipeline.COQ_TYPES, pipeline.SHARD),
    'funcs': ('From Coq Require Import List ZArith NArith Floats.PrimFloat. Import ListNotations.\n'
              'From ByC Require Import Base.Result Harness.Compare Model.BurstFeat Model.BurstFeatRun.\nOpen Scope float_scope.',
              'bad_burst_funcs', ('bf_in', 'bf_out'), 200),
    'mono': ('From Coq Require Import List ZArith NArith Floats.PrimFloat. Import ListNotations.\n'
             'From ByC Require Import Base.Result Harness.Compare Model.BurstFeat Model.TableRuns.\nOpen Scope float_scope.',
             'bad_monotonicity', ('mono_in', 'list float'), 200),
}
RULE = ('(a) compute_features(burst_method="cycles") on generated signals of all 12 kinds (tie-rich quantised/clipped ones '
        'weighted up), both centrings; (b) compute_amp_fraction / compute_amp_consistency / compute_period_consistency with '
        'direction in {both,next,last} on synthetic tables of both centrings with positive, zero, negative, equal and NaN '
        'flank voltages and tied amplitudes; (c) compute_monotonicity on hand-made signals whose flanks are strictly '
        'monotone, flat, plateau-rich, zig-zag, wrong-way, one-ulp steps or two samples long, both centrings; about 40 % of '
        'the synthetic tables of (b) and (c) are handed over with their columns in another order (sorted by name, '
        'reversed, shuffled), some with an unrelated extra column; '
        'non-trivial = >= 3 rows (a, b), a row with monotonicity strictly between 0 and 1 (c)')
ASSUMPTIONS = ['signals finite', 'sign of zero results not compared (-0 == +0)',
               'where the statement defines nothing, the oracle does not judge and only the model comparison applies: '
               'a table without cycles (the model pins IndexError), amp_consistency of a cycle one of whose involved '
               'min/max ratios is NaN (0/0, NaN or infinite flank voltage), amp_fraction of a table containing a NaN '
               'amplitude']
DIRS = {'both': 'Both', 'next': 'Next', 'last': 'Last'}


def stream_of(c):
    return 'mono' if c['kind'].startswith('synthetic-mono') else 'funcs' if c['kind'].startswith('synthetic') else 'pipe'


def cases(rng, tier):
    n = 90 if tier == 'quick' else 900
    out = [pipeline.gen_case(rng, tier, methods=('cycles',),
                             kinds=['quant', 'quant', 'clip', 'clip', 'sine', 'asym', 'bursty', 'noise', 'sum', 'zeroed', 'dc',
                                    'chirp', 'scaled', 'sparse'], fek_prob=0.4) for _ in range(n)]
    m = 1200 if tier == 'quick' else 12000
    for _ in range(m):
        nrow = rng.choice([0, 1, 2, 3, 4, 5, 7, 10])
        style = rng.choice(['pos', 'pos', 'mixed', 'ties', 'nan'])

        def v():
            if style == 'pos':
                return rng.choice([0.5, 1.0, 1.5, 2.0, 3.0, 0.1])
            if style == 'ties':
                return rng.choice([1.0, 1.0, 2.0])
            if style == 'nan':
                return rng.choice([1.0, 2.0, float('nan'), 0.0])
            return rng.choice([1.0, 2.0, 0.0, -1.0, -0.5, 3.0, 0.0])
        out.append({'kind': 'synthetic/' + style, 'peak': rng.random() < 0.5, 'direction': rng.choice(['both', 'next', 'last']),
                    'rises': [v() for _ in range(nrow)], 'decays': [v() for _ in range(nrow)],
                    'periods': [rng.choice([8, 10, 10, 12, 16, 20]) for _ in range(nrow)],
                    'amps': [v() for _ in range(nrow)], 'index': rng.choice(['default', 'default', 'offset', 'reversed'])})
    for _ in range(400 if tier == 'quick' else 4000):
        out.append(_gen_mono(rng))
    for c in out:       # column layout of the synthetic tables, drawn last so that the tables are those of earlier runs
        if c['kind'].startswith('synthetic'):
            c['cols'] = tablelayout.gen_layout(rng)
    return out


MONO_STYLES = ['strict', 'strict', 'flat', 'plateau', 'zigzag', 'reverse', 'random', 'ulp']


def _gen_mono(rng):
    """A hand-made signal and a cycle table on it. Extrema e_0 < e_1 < ... ; row i = (last e_2i, centre e_2i+1,
    next e_2i+2). Flank j rises iff (peak-centred and j even) or (trough-centred and j odd)."""
    peak = rng.random() < 0.5
    nrow = rng.choice([1, 1, 2, 3, 4, 6])
    pos = [rng.randint(0, 3)]
    vals = [rng.choice([0.0, -1.0, 0.5, 100.0])]
    vals = vals * (pos[0] + 1)
    table_style = rng.choice(MONO_STYLES + ['mixed', 'mixed', 'mixed'])
    for j in range(2 * nrow):
        ln = rng.choice([1, 1, 2, 3, 5, 8, 13])       # 1 = a two-sample flank
        up = (j % 2 == 0) == peak
        d = 1.0 if up else -1.0
        style = rng.choice(MONO_STYLES) if table_style == 'mixed' else table_style
        for k in range(ln):
            cur = vals[-1]
            if style == 'strict':
                nxt = cur + d * rng.choice([1.0, 0.5, 0.25])
            elif style == 'flat':
                nxt = cur
            elif style == 'plateau':
                nxt = cur + d * rng.choice([1.0, 0.0, 0.0])
            elif style == 'zigzag':
                nxt = cur + (d if k % 2 == 0 else -d)
            elif style == 'reverse':
                nxt = cur - d * rng.choice([1.0, 0.5])
            elif style == 'ulp':
                nxt = math.nextafter(cur, cur + d) if rng.random() < 0.7 else cur
            else:
                nxt = cur + rng.choice([-1.0, 0.0, 0.0, 1.0])
            vals.append(nxt)
        pos.append(pos[-1] + ln)
    vals.extend([vals[-1]] * rng.randint(0, 3))
    scale = rng.choice([1.0, 1.0, 1.0, 2.0 ** -30, 2.0 ** 20])      # powers of two: order and ties are kept
    return {'kind': 'synthetic-mono/' + table_style, 'peak': peak, 'sig': [float(v * scale).hex() for v in vals],
            'rows': [[pos[2 * i], pos[2 * i + 1], pos[2 * i + 2]] for i in range(nrow)],
            'index': rng.choice(['default', 'default', 'offset'])}


def _f(xs):
    return [None if (isinstance(x, float) and math.isnan(x)) else float(x) for x in xs]


def _uf(xs):
    return [float('nan') if x is None else float(x) for x in xs]


def run_impl(c):
    if not c['kind'].startswith('synthetic'):
        return pipeline.run_pipe(c)
    if c['kind'].startswith('synthetic-mono'):
        return _run_mono(c)
    import pandas as pd
    from bycycle.features.burst import compute_amp_fraction, compute_amp_consistency, compute_period_consistency
    n = len(c['rises'])
    df = pd.DataFrame({'volt_rise': np.array(_uf(c['rises']), dtype=float), 'volt_decay': np.array(_uf(c['decays']), dtype=float),
                       'volt_amp': np.array(_uf(c['amps']), dtype=float), 'period': np.array(c['periods'], dtype=int),
                       ('sample_peak' if c['peak'] else 'sample_trough'): np.arange(n, dtype=int)})
    if c.get('index') == 'offset':
        df.index = np.arange(n) + 5
    elif c.get('index') == 'reversed':
        df.index = np.arange(n)[::-1]
    df = tablelayout.apply_layout(df, c.get('cols'))       # columns are addressed by name, wherever they stand
    out = {}
    try:
        out['af'] = _f([float(x) for x in np.asarray(compute_amp_fraction(df))])
    except Exception as e:
        out['af_err'] = exc_kind(e)
    try:
        out['ac'] = _f([float(x) for x in compute_amp_consistency(df, direction=c['direction'])])
    except Exception as e:
        out['ac_err'] = exc_kind(e)
    try:
        out['pc'] = _f([float(x) for x in compute_period_consistency(df, direction=c['direction'])])
    except Exception as e:
        out['pc_err'] = exc_kind(e)
    return out


def _run_mono(c):
    import pandas as pd
    from bycycle.features.burst import compute_monotonicity
    sig = np.array([float.fromhex(h) for h in c['sig']], dtype=float)
    side = 'trough' if c['peak'] else 'peak'
    centre = 'peak' if c['peak'] else 'trough'
    rows = c['rows']
    df = pd.DataFrame({'sample_last_' + side: np.array([r[0] for r in rows], dtype=int),
                       'sample_' + centre: np.array([r[1] for r in rows], dtype=int),
                       'sample_next_' + side: np.array([r[2] for r in rows], dtype=int)})
    if c.get('index') == 'offset':
        df.index = np.arange(len(rows)) + 5
    df = tablelayout.apply_layout(df, c.get('cols'))
    snap = sig.copy()
    try:
        mo = np.asarray(compute_monotonicity(df, sig), dtype=float)
    except Exception as e:
        return {'mo_err': exc_kind(e)}
    if mo.ndim != 1 or len(mo) != len(rows):
        return {'mo_err': 'shape %s' % (mo.shape,)}
    return {'mo': _f([float(x) for x in mo]), 'sig_unchanged': bool(np.array_equal(sig, snap))}


def _oracle_mono(c, o):
    """monotonicity = mean of (fraction of strictly increasing steps in the rise) and (fraction of strictly decreasing
    steps in the decay); rise and decay run from extremum to extremum, both end points included."""
    if 'mo_err' in o:
        return 'compute_monotonicity failed on a valid table: %s' % o['mo_err']
    sig = [float.fromhex(h) for h in c['sig']]
    mo = _uf(o['mo'])
    for i, (la, ce, nx) in enumerate(c['rows']):
        a, b = sig[la:ce + 1], sig[ce:nx + 1]
        rise, decay = (a, b) if c['peak'] else (b, a)
        up = sum(1 for x, y in zip(rise, rise[1:]) if y > x) / (len(rise) - 1)
        dn = sum(1 for x, y in zip(decay, decay[1:]) if y < x) / (len(decay) - 1)
        want = (up + dn) / 2
        if not pipeline.close(mo[i], want):
            return 'monotonicity[%d] = %r, definition gives %r (rise steps %r, decay steps %r)' % (i, mo[i], want, up, dn)
        if not (0 <= mo[i] <= 1):
            return 'monotonicity[%d] = %r outside [0,1]' % (i, mo[i])
    if not o.get('sig_unchanged', True):
        return 'input signal modified'
    return None


def _ratio(a, b):
    if math.isnan(a) or math.isnan(b):
        return float('nan')
    lo, hi = min(a, b), max(a, b)
    with np.errstate(all='ignore'):
        return float(np.float64(lo) / np.float64(hi))


def oracle(c, o):
    if not c['kind'].startswith('synthetic'):
        return pipeline.oracle_burstfeat(c, o)
    if c['kind'].startswith('synthetic-mono'):
        return _oracle_mono(c, o)
    n = len(c['rises'])
    R, D, P, A = _uf(c['rises']), _uf(c['decays']), c['periods'], _uf(c['amps'])
    if n == 0:
        return None          # a table without cycles: the statement defines nothing (the model pins IndexError)
    for k in ('af_err', 'ac_err', 'pc_err'):
        if k in o:
            return '%s: raised %s on a non-empty table' % (k, o[k])
    # temporal flank sequence (centring-free definition)
    first, second = (R, D) if c['peak'] else (D, R)
    d = c['direction']
    af, ac, pc = _uf(o['af']), _uf(o['ac']), _uf(o['pc'])
    if len(af) != n or len(ac) != n or len(pc) != n:
        return 'a feature column does not have one value per cycle'
    ranked = not any(math.isnan(w) for w in A)     # the rank of / among NaN amplitudes is not defined by the statement
    for i in range(n):
        if ranked:
            want = (sum(1 for w in A if w < A[i]) + (sum(1 for w in A if w == A[i]) + 1) / 2) / n
            if not pipeline.close(af[i], want):
                return 'amp_fraction[%d] = %r, average rank / n = %r' % (i, af[i], want)
            if not (0 <= af[i] <= 1):
                return 'amp_fraction[%d] = %r outside [0,1]' % (i, af[i])
        if i == 0 or i == n - 1:
            if not (math.isnan(ac[i]) and math.isnan(pc[i])):
                return 'consistency of an end cycle is not NaN'
            continue
        cur = _ratio(first[i], second[i])
        lst = _ratio(second[i - 1], first[i])
        nxt = _ratio(second[i], first[i + 1])
        sel = {'both': [cur, nxt, lst], 'next': [cur, nxt], 'last': [cur, lst]}[d]
        if not any(math.isnan(x) for x in sel):
            # every involved min/max ratio is defined: the smallest of them, clamped at 0. (With an undefined ratio
            # - 0/0, NaN flank - the statement says nothing; the NaN handling is pinned by the model comparison.)
            want = max(0.0, min(sel))
            if not pipeline.close(ac[i], want):
                return 'amp_consistency[%d] (%s) = %r, definition gives %r' % (i, d, ac[i], want)
        pl, pn = _ratio(P[i], P[i - 1]), _ratio(P[i], P[i + 1])
        want = {'both': min(pl, pn), 'next': pn, 'last': pl}[d]
        if not pipeline.close(pc[i], want):
            return 'period_consistency[%d] (%s) = %r, definition gives %r' % (i, d, pc[i], want)
        if not (0 <= pc[i] <= 1):
            return 'period_consistency[%d] = %r outside [0,1] with positive periods' % (i, pc[i])
        if all(0 < x < float('inf') for x in (first[i], second[i], second[i - 1], first[i + 1])) and not (0 <= ac[i] <= 1):
            return 'amp_consistency outside [0,1] with positive flank voltages'
    return None


def nontrivial(c, o):
    if not c['kind'].startswith('synthetic'):
        return pipeline.nontrivial_table(c, o)
    if c['kind'].startswith('synthetic-mono'):
        return 'mo' in o and any(x is not None and 0 < x < 1 for x in o['mo'])
    return len(c['rises']) >= 3 and 'ac' in o


def kind_of(c, o):
    return c['kind'] + tablelayout.tag(c.get('cols')) if c['kind'].startswith('synthetic') else pipeline.kind_of(c, o)


def _res(o, key):
    if key + '_err' in o:
        return '(Err %s)' % pipeline.ERRMAP.get(o[key + '_err'], 'EOther')
    return '(Ok %s)' % coqio.flist(_uf(o[key]))


def coq_case(c, o):
    if not c['kind'].startswith('synthetic'):
        return pipeline.coq_case(c, o)
    if c['kind'].startswith('synthetic-mono'):
        if 'mo_err' in o:
            return None          # the model has no error for a valid table; the oracle has already reported it
        inp = '(%s, %s, %s)' % (coqio.B(c['peak']), coqio.flist([float.fromhex(h) for h in c['sig']]),
                                coqio.lst(['(%s, %s, %s)' % tuple(coqio.Z(x) + '%Z' for x in r) for r in c['rows']]))
        return inp, coqio.flist(_uf(o['mo']))
    if 'af_err' in o:
        return None
    inp = '(%s, %s, %s, %s, %s, %s)' % (coqio.B(c['peak']), DIRS[c['direction']], coqio.flist(_uf(c['rises'])),
                                        coqio.flist(_uf(c['decays'])), coqio.zlist(c['periods']), coqio.flist(_uf(c['amps'])))
    return inp, '(%s, %s, %s)' % (coqio.flist(_uf(o['af'])), _res(o, 'ac'), _res(o, 'pc'))
