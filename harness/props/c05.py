"""C05 — burst features equal their documented definitions.
Streams: (a) whole pipeline (cycles method) vs Model/Features.v; (b) the individual functions with all three
directions on synthetic tables (zero / negative / equal / NaN flank voltages) vs Model/BurstFeat.v."""
import math
import numpy as np
from harness import coqio, pipeline
from harness.core import exc_kind
from harness.pipeline import TRUST

PROP = 'C05'
PROPS_FILE = 'Props/C05.v'
COQ_STREAMS = {
    'pipe': (pipeline.COQ_HEADER, pipeline.COQ_RUNNER, pipeline.COQ_TYPES, pipeline.SHARD),
    'funcs': ('From Coq Require Import List ZArith NArith Floats.PrimFloat. Import ListNotations.\n'
              'From ByC Require Import Base.Result Harness.Compare Model.BurstFeat Model.BurstFeatRun.\nOpen Scope float_scope.',
              'bad_burst_funcs', ('bf_in', 'bf_out'), 200),
}
RULE = ('(a) compute_features(burst_method="cycles") on generated signals incl. tie-rich quantised/clipped ones, both '
        'centrings; (b) compute_amp_fraction / compute_amp_consistency / compute_period_consistency with direction in '
        '{both,next,last} on synthetic tables of both centrings with positive, zero, negative, equal and NaN flank voltages '
        'and tied amplitudes; non-trivial = >= 3 rows')
ASSUMPTIONS = ['signals finite', 'sign of zero results not compared (-0 == +0)']
DIRS = {'both': 'Both', 'next': 'Next', 'last': 'Last'}


def stream_of(c):
    return 'funcs' if c['kind'].startswith('synthetic') else 'pipe'


def cases(rng, tier):
    n = 90 if tier == 'quick' else 900
    out = [pipeline.gen_case(rng, tier, methods=('cycles',), kinds=['quant', 'clip', 'sine', 'asym', 'bursty', 'noise', 'sum', 'zeroed', 'dc'],
                             fek_prob=0.4) for _ in range(n)]
    m = 1200 if tier == 'quick' else 12000
    for _ in range(m):
        nrow = rng.choice([0, 1, 2, 3, 4, 5, 7, 10])
        style = rng.choice(['pos', 'pos', 'mixed', 'ties', 'nan'])

        def v():
            if style == 'pos':
                return rng.choice([0.5, 1.0, 1.5, 2.0, 3.0, 0.1])
            if style == 'ties':
                return rng.choice([1.0, 1.0, 2.0])
            if style == 'nan':
                return rng.choice([1.0, 2.0, float('nan'), 0.0])
            return rng.choice([1.0, 2.0, 0.0, -1.0, -0.5, 3.0, 0.0])
        out.append({'kind': 'synthetic/' + style, 'peak': rng.random() < 0.5, 'direction': rng.choice(['both', 'next', 'last']),
                    'rises': [v() for _ in range(nrow)], 'decays': [v() for _ in range(nrow)],
                    'periods': [rng.choice([8, 10, 10, 12, 16, 20]) for _ in range(nrow)],
                    'amps': [v() for _ in range(nrow)], 'index': rng.choice(['default', 'default', 'offset', 'reversed'])})
    return out


def _f(xs):
    return [None if (isinstance(x, float) and math.isnan(x)) else float(x) for x in xs]


def _uf(xs):
    return [float('nan') if x is None else float(x) for x in xs]


def run_impl(c):
    if not c['kind'].startswith('synthetic'):
        return pipeline.run_pipe(c)
    import pandas as pd
    from bycycle.features.burst import compute_amp_fraction, compute_amp_consistency, compute_period_consistency
    n = len(c['rises'])
    df = pd.DataFrame({'volt_rise': np.array(_uf(c['rises']), dtype=float), 'volt_decay': np.array(_uf(c['decays']), dtype=float),
                       'volt_amp': np.array(_uf(c['amps']), dtype=float), 'period': np.array(c['periods'], dtype=int),
                       ('sample_peak' if c['peak'] else 'sample_trough'): np.arange(n, dtype=int)})
    if c.get('index') == 'offset':
        df.index = np.arange(n) + 5
    elif c.get('index') == 'reversed':
        df.index = np.arange(n)[::-1]
    out = {}
    try:
        out['af'] = _f([float(x) for x in np.asarray(compute_amp_fraction(df))])
    except Exception as e:
        out['af_err'] = exc_kind(e)
    try:
        out['ac'] = _f([float(x) for x in compute_amp_consistency(df, direction=c['direction'])])
    except Exception as e:
        out['ac_err'] = exc_kind(e)
    try:
        out['pc'] = _f([float(x) for x in compute_period_consistency(df, direction=c['direction'])])
    except Exception as e:
        out['pc_err'] = exc_kind(e)
    return out


def _ratio(a, b):
    if math.isnan(a) or math.isnan(b):
        return float('nan')
    lo, hi = min(a, b), max(a, b)
    with np.errstate(all='ignore'):
        return float(np.float64(lo) / np.float64(hi))


def oracle(c, o):
    if not c['kind'].startswith('synthetic'):
        return pipeline.oracle_burstfeat(c, o)
    n = len(c['rises'])
    R, D, P, A = _uf(c['rises']), _uf(c['decays']), c['periods'], _uf(c['amps'])
    if n == 0:
        if 'ac_err' not in o or 'pc_err' not in o:
            return 'empty table accepted by a consistency function'
        return None
    for k in ('af_err', 'ac_err', 'pc_err'):
        if k in o:
            return '%s: raised %s on a non-empty table' % (k, o[k])
    # temporal flank sequence (centring-free definition)
    first, second = (R, D) if c['peak'] else (D, R)
    d = c['direction']
    af, ac, pc = _uf(o['af']), _uf(o['ac']), _uf(o['pc'])
    for i in range(n):
        if math.isnan(A[i]):
            want = float('nan')
        else:
            want = (sum(1 for w in A if w < A[i]) + (sum(1 for w in A if w == A[i]) + 1) / 2) / n
        if not pipeline.close(af[i], want):
            return 'amp_fraction[%d] = %r, average rank / n = %r' % (i, af[i], want)
        if i == 0 or i == n - 1:
            if not (math.isnan(ac[i]) and math.isnan(pc[i])):
                return 'consistency of an end cycle is not NaN'
            continue
        cur = _ratio(first[i], second[i])
        lst = _ratio(second[i - 1], first[i])
        nxt = _ratio(second[i], first[i + 1])
        sel = {'both': [cur, nxt, lst], 'next': [cur, nxt], 'last': [cur, lst]}[d]
        if all(math.isnan(x) for x in (cur, nxt, lst)):
            want = float('nan')
        else:
            vals = [x for x in sel if not math.isnan(x)]
            want = max(0.0, min(vals)) if vals else float('nan')
        if not pipeline.close(ac[i], want):
            return 'amp_consistency[%d] (%s) = %r, definition gives %r' % (i, d, ac[i], want)
        pl, pn = _ratio(P[i], P[i - 1]), _ratio(P[i], P[i + 1])
        want = {'both': min(pl, pn), 'next': pn, 'last': pl}[d]
        if not pipeline.close(pc[i], want):
            return 'period_consistency[%d] (%s) = %r, definition gives %r' % (i, d, pc[i], want)
        if all(x > 0 for x in (first[i], second[i], second[i - 1], first[i + 1])) and not (0 <= ac[i] <= 1):
            return 'amp_consistency outside [0,1] with positive flank voltages'
    return None


def nontrivial(c, o):
    if not c['kind'].startswith('synthetic'):
        return pipeline.nontrivial_table(c, o)
    return len(c['rises']) >= 3 and 'ac' in o


def kind_of(c, o):
    return c['kind'] if c['kind'].startswith('synthetic') else pipeline.kind_of(c, o)


def _res(o, key):
    if key + '_err' in o:
        return '(Err %s)' % pipeline.ERRMAP.get(o[key + '_err'], 'EOther')
    return '(Ok %s)' % coqio.flist(_uf(o[key]))


def coq_case(c, o):
    if not c['kind'].startswith('synthetic'):
        return pipeline.coq_case(c, o)
    if 'af_err' in o:
        return None
    inp = '(%s, %s, %s, %s, %s, %s)' % (coqio.B(c['peak']), DIRS[c['direction']], coqio.flist(_uf(c['rises'])),
                                        coqio.flist(_uf(c['decays'])), coqio.zlist(c['periods']), coqio.flist(_uf(c['amps'])))
    return inp, '(%s, %s, %s)' % (coqio.flist(_uf(o['af'])), _res(o, 'ac'), _res(o, 'pc'))
