"""C09 — peak- and trough-centred analyses are mirror images (pipeline model + metamorphic search)."""
from harness import pipeline
from harness.pipeline import COQ_HEADER, COQ_RUNNER, COQ_TYPES, SHARD, kind_of, extra_evidence, TRUST

PROP = 'C09'
PROPS_FILE = 'Props/C09.v'
RULE = ('compute_features(sig, centre) and compute_features(-sig, other centre) on generated signals (the wide C01 stream: '
        'off-band / narrow / wide bands, non-integer fs, int64 samples, empty option dictionaries, option keys in random '
        'order, detector filter_kwargs), both burst methods; the mirrored call is made whether or not the first one returned '
        'a table, in half of the cases on the SAME ndarray object negated in place (np.negative(sig, out=sig), restored '
        'afterwards); 35 % of the cases are preceded (and some interleaved) in the same process by 1-4 calls of the public '
        'helpers of bycycle.utils.dataframes with every documented flag value on scratch tables (`history`). The first '
        'table is compared with the Coq pipeline model and the two tables with each other after the documented swap '
        '(names, negated extremum voltages, 1 - symmetry): sample indices, durations, burst features and labels identical, '
        'voltages / symmetries within 1e-9; a table on one side and an exception on the other is a failure. The premises '
        'of the mirror theorem (reference envelope and detector mask of -x equal those of x) are evaluated per case and '
        'counted (mirror_premise_checked / _failed); a premise-failed case is kept out of the model comparison. '
        'Independently of everything else ~30 % of the cases make the judged analysis on an ndarray object that was '
        'first filled with another signal of the same length and analysed once with the same option objects, then '
        'refilled in place (`prebuffer`); ~20 % pass every array of the case read-only (WRITEABLE flag cleared); ~20 % '
        "make 1-2 rejected calls (mis-spelt key put into the caller's own find_extrema_kwargs / threshold_kwargs and "
        "taken out again, invalid f_range, centre or burst method) on the case's own array and option objects directly "
        'before the judged analysis; a read-only case passes the negated array read-only as well (an in-place negation '
        'unlocks the array for the edit only); all oracles and the model comparison apply to the judged analysis '
        'unchanged (counters in the evidence). '
        'non-trivial = >= 3 rows, a label of each value and a mirrored table')
ASSUMPTIONS = ['signals finite',
               'premise of the mirror theorem: envelope and detector mask of the negated signal equal those of the signal '
               '(checked per case, counted in the evidence)']


def cases(rng, tier):
    n = 140 if tier == 'quick' else 1400
    out = []
    for _ in range(n):
        c = pipeline.gen_case(rng, tier, wide=True, amp_wide=True, extra={'want_mirror': True})
        c['mirror_inplace'] = rng.random() < 0.5
        if rng.random() < 0.35:
            c['history'] = pipeline.gen_history(rng)
        out.append(c)
    # cases that carry their own history first: a failure caused by state that a history leaves behind is then reported
    # (lowest index first) on a case that reproduces it when replayed alone in a fresh process
    out.sort(key=lambda c: 0 if c.get('history') else 1)
    return out


run_impl = pipeline.run_pipe


def coq_case(c, o):
    if pipeline.premise_failed(o):
        return None
    return pipeline.coq_case(c, o)


def oracle(c, o):
    return pipeline.with_context(c, pipeline.oracle_mirror(c, o))


def nontrivial(c, o):
    return pipeline.nontrivial_table(c, o, need_labels=True) and 'mirror' in o
