"""C09 — peak- and trough-centred analyses are mirror images (pipeline model + metamorphic search)."""
from harness import pipeline
from harness.pipeline import COQ_HEADER, COQ_RUNNER, COQ_TYPES, SHARD, coq_case, kind_of, TRUST

PROP = 'C09'
PROPS_FILE = 'Props/C09.v'
RULE = ('compute_features(sig, centre) and compute_features(-sig, other centre) on generated signals, both burst '
        'methods; each table compared with the Coq pipeline model and the two tables compared with each other after the '
        'documented swap (names, negated extremum voltages, 1 - symmetry); non-trivial = >= 3 rows and a label of each value')
ASSUMPTIONS = ['signals finite', 'cases where the reference filter output is exactly 0 somewhere are counted (sign of zero is not mirrored)']


def cases(rng, tier):
    n = 110 if tier == 'quick' else 1100
    return [pipeline.gen_case(rng, tier, extra={'want_mirror': True}) for _ in range(n)]


run_impl = pipeline.run_pipe


def oracle(c, o):
    if 'ref' in o and o['ref'].get('nzero', 0) > 2 * o['ref'].get('padn', 0) + 2:
        return None
    return pipeline.oracle_mirror(c, o)


def nontrivial(c, o):
    return pipeline.nontrivial_table(c, o, need_labels=True) and 'mirror' in o
