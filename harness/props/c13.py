"""C13 — epoch_df / compute_features_2d(axis=None) partition the flattened analysis.  Model/Epoch.v."""
import copy
import math
import numpy as np
from harness import coqio, gen, pipeline, tablelayout
from harness.core import exc_kind

PROP = 'C13'
PROPS_FILE = 'Props/C13.v'
PARALLEL = True
_HDR = ('From Coq Require Import List ZArith NArith Floats.PrimFloat. Import ListNotations.\n'
        'From ByC Require Import Base.Result Harness.Compare Model.Epoch.\nOpen Scope float_scope.')
_ROW = '(Z * Z * Z * Z * Z * Z) * (float * float * float * float) * float * bool * N'
COQ_STREAMS = {
    'epoch_df': (_HDR, 'bad_epoch_df', ('list (%s) * Z * Z' % _ROW, 'list (list out_row)'), 150),
    'axis_none': (_HDR, 'bad_axis_none', ('epoch_in', 'result (list (list out_row))'), 40),
}
RULE = ('(a) epoch_df on synthetic tables of both centrings whose closing indices fall on, one before and one after '
        'multiples of the epoch length, sig_len not necessarily a multiple of it, including empty epochs; row labels default, '
        'shifted, reversed or shuffled; about 40 % of the tables with their columns sorted / reversed / shuffled, some with an '
        'unrelated extra column; (b) '
        'compute_features_2d(axis=None) on generated signals reshaped to (n_rows, row_len), n_rows >= 1, with the option argument '
        'absent / None / {} / a single dict / a per-epoch list (one-element list for a one-row array) of different thresholds, or '
        '(extra stream, up to 60 quick / 600 thorough) a per-epoch list whose entries are all EQUAL - n equal dict objects or one dict '
        'object n times ([d] * n), with and without a centre key - on longer recordings cut into epochs of 2-10 periods, so that re-labelling every epoch on its own '
        '(ends cleared, run rule inside the epoch) differs from the flattened labels (counted: /relabelling-differs-from-flat), '
        'both burst methods; every key optional (centre, method, thresholds incl. the amplitude ones, find_extrema_kwargs with '
        'boundary / filter length, a "return_samples" entry which is documented as ignored); row lengths shorter than a cycle '
        '(empty epochs) and longer; the flattened analysis is compute_features of the concatenated signal with the same options. '
        'non-trivial = >= 2 non-empty epochs')
ASSUMPTIONS = ['closing indices strictly increasing (C01)', 'per-epoch lists keep one burst method and one centre for all epochs',
               'the function-level return_samples flag is left at its default (the statement is about the sample indices)']
CYC = pipeline.CYC_KEYS


def stream_of(c):
    return 'epoch_df' if c['kind'].startswith('synthetic') else 'axis_none'


def cases(rng, tier):
    out = []
    n = 500 if tier == 'quick' else 5000
    for _ in range(n):
        L = rng.choice([10, 16, 25, 40])
        nep = rng.randint(1, 6)
        sig_len = nep * L - rng.choice([0, 0, 0, 1, L // 2])
        closes, c = [], rng.randint(3, 12)
        while c <= sig_len + 3 and len(closes) < 14:
            closes.append(c)
            r = rng.random()
            if r < 0.45:
                k = c // L + 1
                c2 = k * L + rng.choice([-1, 0, 0, 1])
                c = c2 if c2 > c else c + rng.randint(3, 12)
            else:
                c += rng.randint(3, int(1.6 * L))
        rows = []
        for i, cl in enumerate(closes):
            la = closes[i - 1] if i > 0 else max(0, cl - rng.randint(3, 9))
            ce = (la + cl) // 2 if cl - la >= 2 else la
            rows.append([ce, la, cl, (la + ce) // 2, (ce + cl) // 2, max(0, la - 1)])
        # row labels of the input table: default RangeIndex, shifted, reversed or shuffled (positions, not labels, count)
        r = rng.random()
        nr = len(rows)
        if r < 0.55:
            index = None
        elif r < 0.7:
            off = rng.choice([1, 7, 100])
            index = list(range(off, off + nr))
        elif r < 0.85:
            index = list(range(nr - 1, -1, -1))
        else:
            index = list(range(nr))
            rng.shuffle(index)
        out.append({'kind': 'synthetic', 'center': rng.choice(['peak', 'trough']), 'rows': rows, 'sig_len': sig_len, 'L': L,
                    'labels': [rng.random() < 0.5 for _ in rows], 'index': index})
    m = 90 if tier == 'quick' else 900
    for _ in range(m):
        c = _axis_none_case(rng)
        if c is not None:
            out.append(c)
    # per-epoch lists whose entries are all EQUAL (with and without a centre key, both methods)
    for _ in range(60 if tier == 'quick' else 600):
        # 'plain': the repeated option set carries no thresholds and no method (defaults in every epoch)
        mode = rng.choice(['fresh', 'same', 'same-plain', 'fresh-plain'])
        c = _axis_none_case(rng, equal=mode)
        if c is None or c['n_rows'] < 2:
            continue
        c['list_mode'] = mode.split('-')[0]     # 'fresh': n equal dict objects; 'same': ONE dict object n times ([d] * n)
        out.append(c)
    # column layout of the synthetic tables handed to epoch_df (drawn last: the tables are those of earlier runs)
    for c in out:
        if c['kind'] == 'synthetic':
            c['cols'] = tablelayout.gen_layout(rng)
    return out


def _axis_none_case(rng, equal=None):
    """One compute_features_2d(axis=None) case (None: the signal is shorter than one row). equal = 'fresh' | 'same':
    a per-epoch list whose entries are all equal (see there)."""
    r = rng.random()
    shape = 'list' if r < 0.45 else ('dict' if r < 0.8 else ('none' if r < 0.9 else 'empty'))
    if equal:
        shape = 'list'
    plain = bool(equal) and equal.endswith('plain')
    method = 'cycles' if (shape in ('none', 'empty') or plain) else rng.choice(['cycles', 'cycles', 'amp'] if shape == 'dict' else ['cycles', 'amp'])
    # amplitude labels depend on where bursts start and stop: prefer signals with many burst edges for that method
    kinds = ['bursty', 'sparse', 'bursty', 'sparse', 'sum', 'noise', 'sine'] if method == 'amp' else \
        ['sine', 'bursty', 'sparse', 'sum', 'asym', 'noise', 'chirp']
    if equal:
        kinds = kinds + ['sine', 'bursty', 'asym']
    # equal lists: longer recordings, so that an epoch can hold enough cycles for a run between its cleared ends
    s = gen.signal(rng, kind=rng.choice(kinds), max_len=1800 if equal else 640)
    sig = s['sig']
    per = s['period']
    row_len = rng.choice([2 * per, 3 * per + 1, 5 * per, 7 * per + 2, 10 * per] if equal else [per // 2, per, per + 3, 2 * per, 3 * per + 1, 5 * per])
    if rng.random() < 0.12 and not equal:
        row_len = len(sig)                      # a (1, T) array: one epoch holding every cycle
    n_rows = len(sig) // row_len
    if n_rows < 1:
        return None
    # the centre is optional: absent means the default, 'peak'
    center = rng.choice(['peak', 'trough'])
    give_center = rng.random() < 0.65
    if not give_center or shape in ('none', 'empty'):
        center = 'peak'

    def thresholds(is_first):
        # every key is optional: an epoch that omits one must get the DEFAULT, not a neighbour's value; later
        # epochs omit keys more often, and the first set more often carries non-default values, so that it matters
        p_key = 0.6 if is_first else 0.5
        if method == 'cycles':
            # equal lists: mostly lenient values (long bursts, so that the epoch ends matter), some stricter than the defaults
            thr = {k: rng.choice([0.0, 0.2, 0.4, 0.4, 0.7] if equal else [0.0, 0.2, 0.4, 0.6, 0.9]) for k in CYC if rng.random() < p_key}
            if rng.random() < p_key:
                thr['min_n_cycles'] = rng.choice([1, 1, 2, 3, 5] if equal else [1, 2, 3])
            return thr if (thr or rng.random() < 0.7) else None
        thr = {}
        if rng.random() < (0.8 if is_first else 0.5):
            thr['burst_fraction_threshold'] = rng.choice([0.1, 0.3, 0.5, 1] if is_first else [0.1, 0.5, 1])
        if rng.random() < (0.8 if is_first else 0.5):
            thr['min_n_cycles'] = rng.choice([1, 1, 2, 3] if is_first else [1, 2, 3])
        return thr if (thr or rng.random() < 0.7) else None

    def opts(is_first):
        d = {}
        if give_center and (is_first or rng.random() < 0.7):
            d['center_extrema'] = center
        if method == 'amp':
            d['burst_method'] = 'amp'
        elif rng.random() < 0.3 and not plain:
            d['burst_method'] = 'cycles'
        thr = None if plain else thresholds(is_first)
        if thr is not None:
            d['threshold_kwargs'] = thr
        if rng.random() < 0.2:
            d['return_samples'] = rng.random() < 0.3          # documented: ignored
        return d
    first, lst = None, None
    if shape in ('dict', 'list'):
        first = opts(True)
        if method == 'amp':
            first['burst_kwargs'] = {'amp_threshes': (0.5, 1.2)}
        if rng.random() < 0.4:
            fek = {}
            r2 = rng.random()
            if r2 < 0.4:
                fek['filter_kwargs'] = {'n_cycles': rng.choice([2, 3, 4])}
            elif r2 < 0.65:
                fek['filter_kwargs'] = {'n_seconds': round(rng.choice([0.9, 2.5, 3, 4]) * per / s['fs'] / 0.7, 6)}
            if rng.random() < 0.7 or not fek:
                fek['boundary'] = rng.choice([0, 1, 5, len(sig) // 10, per])
            first['find_extrema_kwargs'] = fek
        if shape == 'list' and equal:
            # every epoch gets an option set EQUAL to the first one: n fresh dicts, or one dict object n times
            # ([d] * n). The statement still says: each epoch re-labelled on its own (its first / last cycle cleared,
            # run rule inside the epoch) - which is not the labelling of the flattened analysis.
            lst = [copy.deepcopy(first) for _ in range(n_rows)]
        elif shape == 'list':
            lst = [first] + [opts(False) for _ in range(n_rows - 1)]
    return {'kind': 'axis_none/%s/%s' % (method, shape), 'sig': gen.hexlist(sig[:n_rows * row_len]),
            'fs': s['fs'], 'f_range': list(s['f_range']), 'n_rows': n_rows, 'row_len': row_len, 'method': method,
            'center': center, 'shape': shape, 'first': first, 'list': lst, 'omit_arg': shape == 'none' and rng.random() < 0.5,
            'layout': rng.choice(['C', 'C', 'F', 'view'])}


def _features_df(c):
    import pandas as pd
    sc = pipeline.sample_cols(c['center'])
    rows = c['rows']
    d = {col: np.array([r[i] for r in rows], dtype=int) for i, col in enumerate(sc)}
    n = len(rows)
    d['period'] = np.array([r[2] - r[1] for r in rows], dtype=int)
    d['volt_amp'] = np.arange(n, dtype=float) * 0.5 + 1
    d['amp_fraction'] = np.linspace(0.1, 1, n) if n else np.array([])
    d['is_burst'] = np.array(c['labels'], dtype=bool)
    d['rowid'] = np.arange(n, dtype=int)
    df = pd.DataFrame(d)
    if c.get('index') is not None:
        df.index = pd.Index(list(c['index']))
    return df


def _rows_of(df, center, ids=None):
    sc = pipeline.sample_cols(center)
    out = []
    for i in range(len(df)):
        out.append({'s': [int(df[col].iloc[i]) for col in sc], 'lab': bool(df['is_burst'].iloc[i]),
                    'id': int(df['rowid'].iloc[i]) if 'rowid' in df.columns else -1})
    return out


def _full(df):
    cols = [c for c in df.columns if not c.startswith('sample_') and c not in ('is_burst', 'rowid')]
    return [{c: float(df[c].iloc[i]) for c in cols} for i in range(len(df))]


def run_impl(c):
    from bycycle.utils.dataframes import epoch_df
    if c['kind'] == 'synthetic':
        df = tablelayout.apply_layout(_features_df(c), c.get('cols'))     # columns by name, wherever they stand
        extra = tablelayout.extra_name(c.get('cols'))
        before = df.copy()
        try:
            eps = epoch_df(df, c['sig_len'], c['L'])
        except Exception as e:
            return {'err': exc_kind(e), 'msg': str(e)[:200]}
        need = pipeline.sample_cols(c['center']) + ['period', 'volt_amp', 'amp_fraction', 'is_burst', 'rowid']
        for k, e in enumerate(eps):
            if not hasattr(e, 'columns') or any(col not in e.columns for col in need):
                return {'malformed': 'epoch %d is not a table with the sample, feature and label columns of the input' % k, 'epochs': []}
        out = {'epochs': [_rows_of(e, c['center']) for e in eps], 'input_unchanged': bool(before.equals(df))}
        feats_ok = True
        for e in eps:
            for i in range(len(e)):
                rid = int(e['rowid'].iloc[i])
                if not 0 <= rid < len(before):
                    feats_ok = False
                    continue
                if e['volt_amp'].iloc[i] != before['volt_amp'].iloc[rid] or e['amp_fraction'].iloc[i] != before['amp_fraction'].iloc[rid] \
                        or e['period'].iloc[i] != before['period'].iloc[rid]:
                    feats_ok = False
                if extra and extra in e.columns and not tablelayout.same_column([e[extra].iloc[i]], [before[extra].iloc[rid]]):
                    feats_ok = False        # the user's own column travels with its cycle
        out['features_unchanged'] = feats_ok
        return out
    from bycycle.features import compute_features
    from bycycle.group import compute_features_2d
    sig = gen.unhexlist(c['sig'])
    sigs = sig.reshape(c['n_rows'], c['row_len'])
    if c.get('layout') == 'F':
        sigs = np.asfortranarray(sigs)
    elif c.get('layout') == 'view':
        sigs = np.ascontiguousarray(sigs.T).T
    shape = _shape(c)
    first = copy.deepcopy(c['first']) if c.get('first') else {}
    # "the analysis of the concatenated signal": compute_features with the caller's (first / only) option set; a
    # 'return_samples' entry of the option set is documented as ignored by the group function
    ref_kw = {k: v for k, v in first.items() if k != 'return_samples'}
    if isinstance(ref_kw.get('burst_kwargs'), dict) and 'amp_threshes' in ref_kw['burst_kwargs']:
        ref_kw['burst_kwargs']['amp_threshes'] = tuple(ref_kw['burst_kwargs']['amp_threshes'])
    try:
        flat = compute_features(sig, c['fs'], tuple(c['f_range']), return_samples=True, **ref_kw)
    except Exception as e:
        return {'skip': 'flattened analysis raised %s' % exc_kind(e)}
    sc = pipeline.sample_cols(c['center'])
    if any(col not in flat.columns for col in sc):
        return {'skip': 'flattened analysis lacks the sample columns of centre %s' % c['center']}
    feat_cols = ['amp_fraction', 'amp_consistency', 'period_consistency', 'monotonicity']
    flat_rows = []
    for i in range(len(flat)):
        f4 = [float(flat[col].iloc[i]) if col in flat.columns else float('nan') for col in feat_cols]
        bf = float(flat['burst_fraction'].iloc[i]) if 'burst_fraction' in flat.columns else float('nan')
        flat_rows.append({'s': [int(flat[col].iloc[i]) for col in sc], 'f4': [x if not math.isnan(x) else None for x in f4],
                          'bf': None if math.isnan(bf) else bf, 'lab': bool(flat['is_burst'].iloc[i])})
    if shape == 'list':
        kw = [copy.deepcopy(o) for o in c['list']]
        for o in kw:
            if isinstance(o.get('burst_kwargs'), dict) and 'amp_threshes' in o['burst_kwargs']:
                o['burst_kwargs']['amp_threshes'] = tuple(o['burst_kwargs']['amp_threshes'])
        if c.get('list_mode') == 'same':
            kw = [kw[0]] * len(kw)          # one dict object for every epoch (all entries are equal in this mode)
    elif shape == 'none':
        kw = None
    else:
        kw = copy.deepcopy(first)
        if isinstance(kw.get('burst_kwargs'), dict) and 'amp_threshes' in kw['burst_kwargs']:
            kw['burst_kwargs']['amp_threshes'] = tuple(kw['burst_kwargs']['amp_threshes'])
    out = {'flat': flat_rows}
    try:
        if shape == 'none' and c.get('omit_arg'):
            eps = compute_features_2d(sigs, c['fs'], tuple(c['f_range']), axis=None)
        else:
            eps = compute_features_2d(sigs, c['fs'], tuple(c['f_range']), compute_features_kwargs=kw, axis=None)
    except Exception as e:
        out['err'] = exc_kind(e)
        out['msg'] = str(e)[:200]
        return out
    by_next = {r['s'][2]: i for i, r in enumerate(flat_rows)}
    flat_vals = _full(flat)
    epochs, feats_ok = [], True
    for k, e in enumerate(eps):
        if not hasattr(e, 'columns') or any(col not in e.columns for col in sc) or 'is_burst' not in e.columns:
            out['malformed'] = 'epoch %d is not a table with the sample columns of the flattened analysis and a label column' % k
            out['epochs'] = []
            return out
        rows = []
        vals = _full(e)
        for i in range(len(e)):
            s = [int(e[col].iloc[i]) for col in sc]
            rid = by_next.get(s[2] + k * c['row_len'], 99999)
            rows.append({'s': s, 'lab': bool(e['is_burst'].iloc[i]), 'id': rid})
            if rid != 99999 and not _same_vals(vals[i], flat_vals[rid]):
                feats_ok = False
        epochs.append(rows)
    out['epochs'] = epochs
    out['features_unchanged'] = feats_ok
    return out


def _shape(c):
    if c.get('shape'):
        return c['shape']
    return 'list' if c.get('list') else 'dict'


def _same_vals(a, b):
    """same feature columns (by name, any order) with the same values"""
    if set(a) != set(b):
        return False
    return all((a[k] == b[k]) or (math.isnan(a[k]) and math.isnan(b[k])) for k in a)


def _spec_epochs(rows, sig_len, L):
    n = max(0, -(-sig_len // L))
    eps = [[] for _ in range(n)]
    for i, r in enumerate(rows):
        c = r['s'][2]
        if c > 0:
            k = -(-c // L) - 1
            if 0 <= k < n:
                eps[k].append({'s': [v - k * L for v in r['s']], 'lab': r['lab'], 'id': i})
    return eps


def _relabel(c, o, k, rows_k, flat):
    opts = c['list'][k]
    thr = opts.get('threshold_kwargs', {})
    if c['method'] == 'cycles':
        t = [thr.get(key, pipeline.CYC_DEFAULTS[key]) for key in CYC]
        q = []
        for r in rows_k:
            f4 = [float('nan') if v is None else v for v in flat[r['id']]['f4']]
            q.append(all(f4[j] > t[j] for j in range(4)))
        if q:
            q[0] = False
            q[-1] = False
        return pipeline.spec_minrun(q, thr.get('min_n_cycles', 3))
    bft = thr.get('burst_fraction_threshold', 1)
    q = [(flat[r['id']]['bf'] if flat[r['id']]['bf'] is not None else float('nan')) >= bft for r in rows_k]
    return pipeline.spec_minrun(q, thr.get('min_n_cycles', 3))


def oracle(c, o):
    if 'skip' in o:
        return None
    if 'err' in o:
        return 'raised %s (%s)' % (o['err'], o.get('msg'))
    if 'malformed' in o:
        return o['malformed']
    if c['kind'] == 'synthetic':
        rows = [{'s': r, 'lab': l} for r, l in zip(c['rows'], c['labels'])]
        want = _spec_epochs(rows, c['sig_len'], c['L'])
        if not o['input_unchanged']:
            return 'input table modified'
    else:
        rows = o['flat']
        want = _spec_epochs(rows, c['n_rows'] * c['row_len'], c['row_len'])
        if c.get('list'):
            for k, ep in enumerate(want):
                lab = _relabel(c, o, k, ep, rows)
                for r, l in zip(ep, lab):
                    r['lab'] = l
    got = o['epochs']
    if len(got) != len(want):
        return '%d epochs returned, expected %d' % (len(got), len(want))
    for k, (g, w) in enumerate(zip(got, want)):
        if [r['id'] for r in g] != [r['id'] for r in w]:
            return 'epoch %d holds cycles %s of the flattened analysis, expected %s' % (k, [r['id'] for r in g], [r['id'] for r in w])
        for a, b in zip(g, w):
            if a['s'] != b['s']:
                return 'epoch %d: sample indices %s, expected %s (shift by the epoch start)' % (k, a['s'], b['s'])
            if a['lab'] != b['lab']:
                return 'epoch %d: label of cycle %d is %s, expected %s' % (k, a['id'], a['lab'], b['lab'])
    if not o.get('features_unchanged', True):
        return 'feature values changed by epoching'
    return None


def nontrivial(c, o):
    return 'epochs' in o and sum(1 for e in o['epochs'] if e) >= 2


def kind_of(c, o):
    k = c['kind']
    if k == 'synthetic':
        if c.get('index') is not None:
            k += '/row_labels'
    else:
        first = c.get('first') or {}
        flags = []
        if c.get('shape') in ('dict', 'list') and 'center_extrema' not in first:
            flags.append('default_centre')
        if 'find_extrema_kwargs' in first:
            flags.append('fek')
        if any('return_samples' in d for d in ([first] + list(c.get('list') or []))):
            flags.append('rs_entry')
        if c['n_rows'] == 1:
            flags.append('1row')
        if c.get('list_mode'):
            flags.append('equal_list_' + c['list_mode'])
        if flags:
            k += '+' + '+'.join(flags)
    if 'skip' in o:
        return k + '/skipped'
    if 'epochs' in o and any(len(e) == 0 for e in o['epochs']):
        k += '/empty_epoch'
    if c.get('list_mode') and 'epochs' in o and 'flat' in o:
        # observability: would keeping the labels of the flattened analysis have been noticed on this input?
        if any(r['id'] != 99999 and r['lab'] != o['flat'][r['id']]['lab'] for e in o['epochs'] for r in e):
            k += '/relabelling-differs-from-flat'
    if c['kind'] == 'synthetic':
        k += tablelayout.tag(c.get('cols'))
    return k + ('/err' if 'err' in o else '')


def _row_in(r, f4=None, bf=None, lab=False, rid=0):
    f4 = f4 or [None] * 4
    return '((%s), (%s), %s, %s, %d%%N)' % (', '.join(coqio.Z(v) + '%Z' for v in r),
                                             ', '.join(coqio.fl(float('nan') if v is None else v) for v in f4),
                                             coqio.fl(float('nan') if bf is None else bf), coqio.B(lab), rid)


def _out(epochs):
    return coqio.lst([coqio.lst(['((%s), %s, %d%%N)' % (', '.join(coqio.Z(v) + '%Z' for v in r['s']), coqio.B(r['lab']), r['id'])
                                  for r in e]) if e else 'nil' for e in epochs]) if epochs else 'nil'


def coq_case(c, o):
    if 'skip' in o or 'malformed' in o:
        return None
    if c['kind'] == 'synthetic':
        if 'err' in o:
            return None
        rows = coqio.lst([_row_in(r, lab=l, rid=i) for i, (r, l) in enumerate(zip(c['rows'], c['labels']))]) if c['rows'] else 'nil'
        return '(%s, %d%%Z, %d%%Z)' % (rows, c['sig_len'], c['L']), _out(o['epochs'])
    rows = coqio.lst([_row_in(r['s'], r['f4'], r['bf'], r['lab'], i) for i, r in enumerate(o['flat'])]) if o['flat'] else 'nil'
    if c.get('list'):
        items = []
        for opts in c['list']:
            thr = opts.get('threshold_kwargs', {})
            if c['method'] == 'cycles':
                items.append('(ICycles (%s) %d%%Z)' % (', '.join(coqio.fl(thr.get(k, pipeline.CYC_DEFAULTS[k])) for k in CYC),
                                                      thr.get('min_n_cycles', 3)))
            else:
                items.append('(IAmp %s %d%%Z)' % (coqio.fl(thr.get('burst_fraction_threshold', 1)), thr.get('min_n_cycles', 3)))
        opts = '(Some %s)' % coqio.lst(items)
    else:
        opts = 'None'
    inp = '(%s, %d%%nat, %d%%Z, %s)' % (rows, c['n_rows'], c['row_len'], opts)
    if 'err' in o:
        return inp, '(Err %s)' % pipeline.ERRMAP.get(o['err'], 'EOther')
    return inp, '(Ok %s)' % _out(o['epochs'])
