"""C03 — find_zerox vs Model/Zerox.v."""
import itertools
import numpy as np
from harness import coqio, gen
from harness.core import exc_kind

PROP = 'C03'
PROPS_FILE = 'Props/C03.v'
COQ_HEADER = ('From Coq Require Import List ZArith NArith Floats.PrimFloat. Import ListNotations.\n'
              'From ByC Require Import Base.Result Harness.Compare Model.Zerox.\nOpen Scope float_scope.')
COQ_RUNNER = 'bad_find_zerox'
COQ_TYPES = ('list float * list Z * list Z', 'result (list Z * list Z)')
SHARD = 400
RULE = ('(a) extrema returned by find_extrema on generated signals (first_extrema peak / trough / None - None gives '
        'sequences that start and end with the same kind -, several boundaries); '
        '(b) every signal over the alphabet {-1,0,1} (and {0,1,2}) up to length 5 (quick) / 6 (thorough) x every alternating '
        'peak/trough index sequence on it, plus random samples at lengths up to 9; non-trivial = at least one rise and one '
        'decay and a flank of at least 3 samples')
EXHAUSTIVE = {'quick': True, 'thorough': True}
ASSUMPTIONS = ['signals are finite', 'peaks/troughs strictly increasing, alternating, within the signal',
               'statement oracle: a flank that is neither identically zero nor inverted and on which no sample pair straddles '
               'the half-height (e.g. flat non-zero flank) has no value stated by the property: only the NUMBER of midpoints '
               'is judged there; the value the code returns (segment centre) is compared with the model only']


def _alt_sequences(n, rng=None, limit=None):
    seqs = []
    for k in range(2, n + 1):
        for idx in itertools.combinations(range(n), k):
            for first_peak in (True, False):
                seqs.append((idx, first_peak))
    if limit and len(seqs) > limit:
        seqs = rng.sample(seqs, limit)
    return seqs


def _case(kind, sig, idx, first_peak):
    peaks = [i for j, i in enumerate(idx) if (j % 2 == 0) == first_peak]
    troughs = [i for j, i in enumerate(idx) if (j % 2 == 0) != first_peak]
    return {'kind': kind, 'sig': gen.hexlist(sig), 'peaks': peaks, 'troughs': troughs}


def cases(rng, tier):
    out = []
    L = 5 if tier == 'quick' else 6
    for n in range(2, L + 1):
        for alpha in ([-1.0, 0.0, 1.0],) if n > 4 else ([-1.0, 0.0, 1.0], [0.0, 1.0, 2.0]):
            for sig in itertools.product(alpha, repeat=n):
                for idx, fp in _alt_sequences(n):
                    if len(idx) >= 2:
                        out.append(_case('exhaustive', sig, idx, fp))
    nr = 1500 if tier == 'quick' else 15000
    for _ in range(nr):
        n = rng.randint(6, 9)
        f = rng.choice([1.0, 1.0, 0.5, 1e-9, 1e-12, 1e9])
        sig = [float(rng.choice([-2, -1, 0, 0, 1, 2, 3])) * f for _ in range(n)]
        idx, fp = rng.choice(_alt_sequences(n, rng, 400))
        out.append(_case('random_small', sig, idx, fp))
    nsig = 120 if tier == 'quick' else 1200
    for _ in range(nsig):
        s = gen.signal(rng, max_len=600)
        out.append({'kind': 'signal/' + s['kind'], 'sig': gen.hexlist(s['sig']), 'fs': s['fs'], 'f_range': list(s['f_range']),
                    'boundary': rng.choice([0, 1, 5]), 'first': rng.choice(['peak', 'trough', None])})
    return out


def run_impl(c):
    from bycycle.cyclepoints import find_zerox
    sig = gen.unhexlist(c['sig'])
    r = {}
    if c['kind'].startswith('signal'):
        from bycycle.cyclepoints import find_extrema
        try:
            p, t = find_extrema(sig, c['fs'], tuple(c['f_range']), boundary=c['boundary'], first_extrema=c['first'])
        except Exception as e:
            return {'skip': 'find_extrema raised %s' % exc_kind(e)}
        r['peaks'], r['troughs'] = [int(x) for x in p], [int(x) for x in t]
        if len(p) == 0 or len(t) == 0:
            return {'skip': 'no extrema'}
    else:
        r['peaks'], r['troughs'] = c['peaks'], c['troughs']
    try:
        rises, decays = find_zerox(sig, np.array(r['peaks'], dtype=int), np.array(r['troughs'], dtype=int))
        r['rises'], r['decays'] = [int(x) for x in rises], [int(x) for x in decays]
    except Exception as e:
        r['err'] = exc_kind(e)
    return r


def _flank(sig, s, e, rise):
    """Midpoint the statement prescribes for the flank s..e, or None where the statement prescribes no value."""
    seg = sig[s:e + 1]
    half = s + len(seg) // 2
    if all(v == 0 for v in seg):
        return half
    if (seg[0] > seg[-1]) if rise else (seg[0] < seg[-1]):
        return half
    mid = (seg[0] + seg[-1]) / 2.0
    if rise:
        xs = [k for k in range(len(seg) - 1) if seg[k] <= mid < seg[k + 1]]
    else:
        xs = [k for k in range(len(seg) - 1) if seg[k] > mid >= seg[k + 1]]
    if not xs:
        return None   # the half-height is never crossed in the flank's direction: not covered by the statement
    m = len(xs)
    med = xs[m // 2] if m % 2 else (xs[m // 2 - 1] + xs[m // 2]) // 2
    return s + med


def _agree(got, want):
    return len(got) == len(want) and all(w is None or g == w for g, w in zip(got, want))


def oracle(c, o):
    if 'skip' in o:
        return None
    sig = [float(x) for x in gen.unhexlist(c['sig'])]
    p, t = o['peaks'], o['troughs']
    merged = sorted([(i, 'p') for i in p] + [(i, 't') for i in t])
    want_r, want_d = [], []
    for (a, ka), (b, kb) in zip(merged, merged[1:]):
        if ka == kb or a == b:
            return None   # not alternating: outside the property
        (want_r if ka == 't' else want_d).append(_flank(sig, a, b, ka == 't'))
    if 'err' in o:
        return 'raised %s on an alternating extrema sequence' % o['err']
    if not _agree(o['rises'], want_r) or not _agree(o['decays'], want_d):
        return 'midpoints differ: got rises %s decays %s, want %s %s (None = any value)' % (o['rises'], o['decays'], want_r, want_d)
    return None


def nontrivial(c, o):
    if 'rises' not in o or not o['rises'] or not o['decays']:
        return False
    m = sorted(o['peaks'] + o['troughs'])
    return any(b - a >= 2 for a, b in zip(m, m[1:]))


def kind_of(c, o):
    return c['kind'] + ('/skip' if 'skip' in o else '/err' if 'err' in o else '')


ERRMAP = {'Value': 'EValue', 'Index': 'EIndex', 'Key': 'EKey', 'Type': 'EType'}


def coq_case(c, o):
    if 'skip' in o:
        return None
    sig = gen.unhexlist(c['sig'])
    inp = '(%s, %s, %s)' % (coqio.flist(sig), coqio.zlist(o['peaks']), coqio.zlist(o['troughs']))
    if 'err' in o:
        return inp, '(Err %s)' % ERRMAP.get(o['err'], 'EOther')
    return inp, '(Ok (%s, %s))' % (coqio.zlist(o['rises']), coqio.zlist(o['decays']))
