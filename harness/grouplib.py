"""Shared driver for the group functions (C11, C12): real pools, perturbed completion order,
placement observed by matching every returned table against directly computed candidates."""
import os
import sys
import tempfile
import time
import types
import numpy as np
from harness import coqio
from harness.core import exc_kind

COQ_HEADER = ('From Coq Require Import List Arith NArith. Import ListNotations.\n'
              'From ByC Require Import Base.Result Harness.Compare Model.Group.')
COQ_RUNNER = 'bad_group'
COQ_TYPES = ('gcase', 'list (list (nat * nat * nat))')
SHARD = 400
FS, FR = 100, (3, 8)
MISSING = 777

# option sets with pairwise different effect on the table (centre and labels differ)
KW_POOL = [
    {'center_extrema': 'peak', 'threshold_kwargs': {'amp_fraction_threshold': 0, 'amp_consistency_threshold': 0,
                                                     'period_consistency_threshold': 0, 'monotonicity_threshold': 0, 'min_n_cycles': 1}},
    {'center_extrema': 'trough', 'threshold_kwargs': {'amp_fraction_threshold': 0, 'amp_consistency_threshold': 0,
                                                       'period_consistency_threshold': 0, 'monotonicity_threshold': 0, 'min_n_cycles': 1}},
    {'center_extrema': 'peak', 'threshold_kwargs': {'monotonicity_threshold': 1.0, 'min_n_cycles': 1}},
    {'center_extrema': 'trough', 'threshold_kwargs': {'monotonicity_threshold': 1.0, 'min_n_cycles': 1}},
    {'center_extrema': 'peak', 'burst_method': 'amp', 'threshold_kwargs': {'burst_fraction_threshold': 0.1, 'min_n_cycles': 1}},
    {'center_extrema': 'trough', 'burst_method': 'amp', 'threshold_kwargs': {'burst_fraction_threshold': 0.1, 'min_n_cycles': 1}},
    {'center_extrema': 'peak', 'find_extrema_kwargs': {'boundary': 25},
     'threshold_kwargs': {'amp_fraction_threshold': 0, 'amp_consistency_threshold': 0,
                          'period_consistency_threshold': 0, 'monotonicity_threshold': 0, 'min_n_cycles': 1}},
    {'center_extrema': 'trough', 'find_extrema_kwargs': {'boundary': 25},
     'threshold_kwargs': {'amp_fraction_threshold': 0, 'amp_consistency_threshold': 0,
                          'period_consistency_threshold': 0, 'monotonicity_threshold': 0, 'min_n_cycles': 1}},
    {'center_extrema': 'peak', 'find_extrema_kwargs': {'boundary': 40},
     'threshold_kwargs': {'monotonicity_threshold': 1.0, 'min_n_cycles': 1}},
]
SHARED_ID = 999      # one dict shared by all rows / slices
NONE_ID = 998        # compute_features_kwargs not given: the empty option set (Model/Group.v none_id)


def kw_term(mode, kw):
    """Coq term of type gkw (Model/Group.v)."""
    if mode == 'none':
        return 'GNone'
    if mode == 'list':
        return '(GList %s)' % nat_list(kw)
    return 'GShared'


def option_set(a, rs_key=None):
    """Fresh copy of option set a of the pool; rs_key True/False adds a 'return_samples' entry (documented: ignored)."""
    kw = {k: (dict(v) if isinstance(v, dict) else v) for k, v in KW_POOL[a].items()}
    if rs_key is not None:
        kw['return_samples'] = bool(rs_key)
    return kw


def make_sig(k, n=220):
    t = np.arange(n)
    rng = np.random.default_rng(1000 + k)
    return np.sin(2 * np.pi * t / (17 + (k % 5)) + 0.7 * k) * (1 + 0.3 * np.sin(2 * np.pi * t / (61 + 3 * k))) \
        + 0.1 * rng.standard_normal(n) + 0.01 * k


_DELAYS = {}
_TASKS = {}          # first sample of a task's array -> submission index
_LOG = [None]        # path of the completion log of the current call (inherited by forked workers)
STATS = {'calls_logged': 0, 'log_is_permutation': 0, 'observed_reordered': 0, 'observed_equals_intended_schedule': 0,
         'perturbed_schedule_calls': 0, 'perturbed_and_observed_reordered': 0}


def _key(sig):
    return float(np.asarray(sig).ravel()[0])


def delayed_cf(sig, *a, **k):
    """Stand-in for bycycle.group.features.compute_features inside workers: sleeps, then delegates,
    then appends the task's key to the completion log (one short O_APPEND write per task)."""
    from bycycle.features import compute_features as real
    key = _key(sig)
    d = _DELAYS.get(key, 0.0)
    if d:
        time.sleep(d)
    try:
        return real(sig, *a, **k)
    finally:
        path = _LOG[0]
        if path is not None:
            try:
                fd = os.open(path, os.O_WRONLY | os.O_APPEND)
                try:
                    os.write(fd, (repr(key) + '\n').encode())
                finally:
                    os.close(fd)
            except OSError:
                pass


def install_delays(sigs_flat_first, schedule):
    """sigs_flat_first: list of the arrays whose first sample identifies a pool task, in submission order."""
    import bycycle.group.features as gf
    _DELAYS.clear()
    _TASKS.clear()
    _LOG[0] = None
    n = len(sigs_flat_first)
    for i, s in enumerate(sigs_flat_first):
        if schedule == 'reverse':
            d = 0.012 * (n - i)
        elif schedule == 'first_slow':
            d = 0.05 if i == 0 else 0.0
        elif schedule == 'zigzag':
            d = 0.03 if i % 2 == 0 else 0.0
        else:
            d = 0.0
        _DELAYS[_key(s)] = d
        _TASKS[_key(s)] = i
    if not hasattr(gf, 'compute_features'):
        return None
    try:
        fd, path = tempfile.mkstemp(prefix='verif_group_', suffix='.log')
        os.close(fd)
        _LOG[0] = path
    except OSError:
        _LOG[0] = None
    orig = gf.compute_features
    gf.compute_features = delayed_cf
    return orig


def uninstall(orig, schedule=None):
    """Restore the worker function; return the OBSERVED completion order (submission indices in the order the
    workers finished) or None when it could not be observed (internal name gone, log unreadable)."""
    import bycycle.group.features as gf
    if orig is not None:
        gf.compute_features = orig
    path, _LOG[0] = _LOG[0], None
    if path is None:
        return None
    order = None
    try:
        with open(path) as f:
            order = [_TASKS.get(float(line), -1) for line in f.read().split()]
    except (OSError, ValueError):
        order = None
    try:
        os.unlink(path)
    except OSError:
        pass
    if order is not None:
        n = len(_TASKS)
        STATS['calls_logged'] += 1
        perm = sorted(order) == list(range(n))
        STATS['log_is_permutation'] += perm
        reordered = perm and order != list(range(n))
        STATS['observed_reordered'] += reordered
        if schedule is not None:
            STATS['observed_equals_intended_schedule'] += (order == sigma_of(schedule, n))
            if schedule != 'none' and n >= 2:
                STATS['perturbed_schedule_calls'] += 1
                STATS['perturbed_and_observed_reordered'] += reordered
    return order


def sigma_for(schedule, n, observed):
    """Completion order handed to the model: the observed one when it is a permutation of the n tasks
    (the theorem covers every permutation), else the intended one."""
    if observed is not None and sorted(observed) == list(range(n)):
        return list(observed)
    return sigma_of(schedule, n)


class ProgressStub:
    """In-process stand-in for tqdm / tqdm.notebook (neither is installed in /venv): `tqdm(iterable, ...)` yields the
    items of the iterable unchanged and records how it was used.  It offers the usual tqdm surface (iteration,
    len, update, close, context manager, set_description, refresh, write) so that a rewrite of the caller that uses the
    bar differently still runs."""

    def __init__(self):
        self.saved = {}
        self.record = {'calls': 0, 'module': None, 'total': None, 'pulled': 0, 'updated': 0}

    def _cls(self, modname):
        rec = self.record

        class tqdm(object):
            def __init__(self, iterable=None, desc=None, total=None, *a, **k):
                rec['calls'] += 1
                rec['module'] = modname
                rec['total'] = total if (total is None or isinstance(total, (int, float))) else str(total)
                self.iterable = iterable
                self.total = total
                self.desc = desc
                self.n = 0

            def __iter__(self):
                for x in self.iterable:
                    rec['pulled'] += 1
                    self.n += 1
                    yield x

            def __len__(self):
                if self.total is not None:
                    return int(self.total)
                return len(self.iterable)

            def __enter__(self):
                return self

            def __exit__(self, *exc):
                return False

            def update(self, n=1):
                rec['updated'] += n
                self.n += n

            def close(self):
                pass

            def refresh(self, *a, **k):
                pass

            def reset(self, total=None):
                self.n = 0

            def set_description(self, desc=None, refresh=True):
                self.desc = desc

            set_description_str = set_description

            def set_postfix(self, *a, **k):
                pass

            @staticmethod
            def write(s, *a, **k):
                pass

        return tqdm

    def install(self):
        for name in ('tqdm', 'tqdm.notebook', 'tqdm.auto'):
            self.saved[name] = sys.modules.get(name, None)
        top = types.ModuleType('tqdm')
        top.tqdm = self._cls('tqdm')
        top.trange = lambda *a, **k: top.tqdm(range(*a), **k)
        top.__path__ = []
        for sub in ('notebook', 'auto'):
            m = types.ModuleType('tqdm.' + sub)
            m.tqdm = self._cls('tqdm.' + sub)
            m.trange = (lambda mm: (lambda *a, **k: mm.tqdm(range(*a), **k)))(m)
            setattr(top, sub, m)
            sys.modules['tqdm.' + sub] = m
        sys.modules['tqdm'] = top
        return self

    def uninstall(self):
        for name, old in self.saved.items():
            if old is None:
                sys.modules.pop(name, None)
            else:
                sys.modules[name] = old
        self.saved = {}
        return dict(self.record)


def sigma_of(schedule, n):
    if schedule == 'reverse':
        return list(range(n - 1, -1, -1))
    if schedule == 'first_slow':
        return list(range(1, n)) + [0]
    if schedule == 'zigzag':
        return [i for i in range(n) if i % 2 == 1] + [i for i in range(n) if i % 2 == 0]
    return list(range(n))


def same_table(a, b):
    if list(a.columns) != list(b.columns) or len(a) != len(b):
        return False
    for col in a.columns:
        x, y = np.asarray(a[col]), np.asarray(b[col])
        if x.dtype.kind == 'f' or y.dtype.kind == 'f':
            if not np.array_equal(x.astype(float), y.astype(float), equal_nan=True):
                return False
        elif not np.array_equal(x, y):
            return False
    return True


def match(df, cands, prefer):
    """cands: dict triple -> table. Return the matching triple (prefer the expected one when several match)."""
    hits = [k for k, t in cands.items() if same_table(df, t)]
    if not hits:
        return [MISSING, MISSING, MISSING]
    if tuple(prefer) in hits:
        return list(prefer)
    return list(hits[0])


def coq_triples(m):
    return coqio.lst([coqio.lst(['(%d, %d, %d)%%nat' % tuple(t) for t in row]) if row else 'nil' for row in m]) if m else 'nil'


def nat_list(xs):
    return coqio.lst([str(int(x)) for x in xs], 'nat') if len(xs) else '(@nil nat)'


def relayout(arr, layout):
    """Same values, different memory layout: C-ordered, Fortran-ordered, or a transposed view."""
    if layout == 'F':
        return np.asfortranarray(arr)
    if layout == 'view':
        axes = tuple(range(arr.ndim))[::-1]
        return np.ascontiguousarray(arr.transpose(axes)).transpose(axes)
    return arr
