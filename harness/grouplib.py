"""Shared driver for the group functions (C11, C12): real pools, perturbed completion order,
placement observed by matching every returned table against directly computed candidates."""
import os
import random as _random
import sys
import tempfile
import time
import types
import numpy as np
from harness import coqio
from harness.core import exc_kind

COQ_HEADER = ('From Coq Require Import List Arith NArith. Import ListNotations.\n'
              'From ByC Require Import Base.Result Harness.Compare Model.Group.')
COQ_RUNNER = 'bad_group / bad_group_object'
COQ_TYPES = ('gcase', 'list (list (nat * nat * nat))')
SHARD = 400
# two correspondence streams: calls of the functions (one gcase -> the placement matrix of the returned tables) and
# histories on ONE BycycleGroup object (the constructor's option-set id and a list of fits / re-assignments of the
# settings attributes -> placement of df_features and, per model, the placement of the table and the id of the
# signal it holds; the first component of a placement triple says WHICH option set the table was computed with)
COQ_STREAMS = {
    'func': (COQ_HEADER, 'bad_group', COQ_TYPES, SHARD),
    'object': (COQ_HEADER, 'bad_group_object', ('nat * list ghist', 'gobs'), SHARD),
}
FS, FR = 100, (3, 8)
MISSING = 777

# option sets with pairwise different effect on the table (centre and labels differ)
KW_POOL = [
    {'center_extrema': 'peak', 'threshold_kwargs': {'amp_fraction_threshold': 0, 'amp_consistency_threshold': 0,
                                                     'period_consistency_threshold': 0, 'monotonicity_threshold': 0, 'min_n_cycles': 1}},
    {'center_extrema': 'trough', 'threshold_kwargs': {'amp_fraction_threshold': 0, 'amp_consistency_threshold': 0,
                                                       'period_consistency_threshold': 0, 'monotonicity_threshold': 0, 'min_n_cycles': 1}},
    {'center_extrema': 'peak', 'threshold_kwargs': {'monotonicity_threshold': 1.0, 'min_n_cycles': 1}},
    {'center_extrema': 'trough', 'threshold_kwargs': {'monotonicity_threshold': 1.0, 'min_n_cycles': 1}},
    {'center_extrema': 'peak', 'burst_method': 'amp', 'threshold_kwargs': {'burst_fraction_threshold': 0.1, 'min_n_cycles': 1}},
    {'center_extrema': 'trough', 'burst_method': 'amp', 'threshold_kwargs': {'burst_fraction_threshold': 0.1, 'min_n_cycles': 1}},
    {'center_extrema': 'peak', 'find_extrema_kwargs': {'boundary': 25},
     'threshold_kwargs': {'amp_fraction_threshold': 0, 'amp_consistency_threshold': 0,
                          'period_consistency_threshold': 0, 'monotonicity_threshold': 0, 'min_n_cycles': 1}},
    {'center_extrema': 'trough', 'find_extrema_kwargs': {'boundary': 25},
     'threshold_kwargs': {'amp_fraction_threshold': 0, 'amp_consistency_threshold': 0,
                          'period_consistency_threshold': 0, 'monotonicity_threshold': 0, 'min_n_cycles': 1}},
    {'center_extrema': 'peak', 'find_extrema_kwargs': {'boundary': 40},
     'threshold_kwargs': {'monotonicity_threshold': 1.0, 'min_n_cycles': 1}},
]
SHARED_ID = 999      # one dict shared by all rows / slices
NONE_ID = 998        # compute_features_kwargs not given: the empty option set (Model/Group.v none_id)


def kw_term(mode, kw):
    """Coq term of type gkw (Model/Group.v)."""
    if mode == 'none':
        return 'GNone'
    if mode == 'list':
        return '(GList %s)' % nat_list(kw)
    return 'GShared'


def shuffled(krng, d):
    """Same dictionary, insertion order drawn from krng (None: unchanged)."""
    if krng is None:
        return dict(d)
    items = list(d.items())
    krng.shuffle(items)
    return dict(items)


def option_set(a, rs_key=None, krng=None):
    """Fresh copy of option set a of the pool; rs_key True/False adds a 'return_samples' entry (documented: ignored);
    with krng the insertion order of the dictionary and of its nested dictionaries is shuffled (a caller does not write
    keys in any canonical order, e.g. min_n_cycles may come first)."""
    kw = {k: (shuffled(krng, v) if isinstance(v, dict) else v) for k, v in KW_POOL[a].items()}
    if rs_key is not None:
        kw['return_samples'] = bool(rs_key)
    return shuffled(krng, kw)


def key_rng(c):
    """Per-case generator for dictionary insertion orders (derived from the case, hence from the run's rng)."""
    return _random.Random(c['kseed']) if c.get('kseed') is not None else None


# ---------------------------------------------------------------------------------------------------------
# histories on one BycycleGroup object: earlier fits on DECOY arrays of another shape, then the judged fit

DECOY_SIG0 = 40          # decoy signals are make_sig(40..): never equal to a judged signal (ids < 40)
AX3 = {0: 0, 1: 1, 2: (0, 1)}


def gen_decoys(rng, shape):
    """1-2 earlier fits for an object whose judged fit is on an array of first dimensions `shape` ((n0,) or (n0, n1)):
    each on an array of a DIFFERENT shape - more rows, fewer rows, another n1, or the other dimensionality (2-D before
    3-D and the reverse) - with its own signals.  Encoded like the judged call (nd, n0, n1, ax)."""
    out = []
    for _ in range(rng.choice([1, 1, 2])):
        for _try in range(20):
            kind = rng.choice(['more', 'fewer', 'other_n1', 'other_nd'])
            nd = len(shape) + 1
            n0, n1 = shape[0], (shape[1] if len(shape) == 2 else None)
            if kind == 'more':
                n0 = n0 + rng.choice([1, 2])
            elif kind == 'fewer':
                n0 = rng.randint(1, max(1, n0 - 1))
            elif kind == 'other_n1':
                nd, n1 = 3, rng.choice([x for x in (1, 2, 3, 4) if x != n1])
            else:
                nd = 2 if nd == 3 else 3
                n0 = rng.choice([1, 2, 3, 4])
                n1 = rng.choice([1, 2, 3]) if nd == 3 else None
            n0 = min(n0, 4 if nd == 3 else 8)
            if nd == 2:
                n1 = None
            elif n1 is None:
                n1 = rng.choice([1, 2, 3])
            if ((n0,) if nd == 2 else (n0, n1)) != tuple(shape):
                break
        else:
            continue
        out.append({'nd': nd, 'n0': n0, 'n1': n1, 'ax': 0 if nd == 2 else rng.choice([0, 1, 2]),
                    'first_sig': DECOY_SIG0 + rng.randrange(60), 'n_jobs': rng.choice([1, 1, 1, 2])})
    return out


def run_decoys(bg, history):
    """Fit the object on every decoy array (undelayed workers, no progress bar)."""
    run_history(bg, history)


def decoy_term(d):
    """Coq gcase of a decoy fit (identity completion order; the option argument is not used for objects)."""
    if d['nd'] == 2:
        return '(G2 %s GShared %d%%nat)' % (nat_list(range(d['n0'])), d['n0'])
    ntasks = {0: d['n0'], 1: d['n1'], 2: d['n0'] * d['n1']}[d['ax']]
    return '(G3 %d%%nat %s GShared %d%%nat %d%%nat)' % (d['ax'], nat_list(range(ntasks)), d['n0'], d['n1'])


# ---------------------------------------------------------------------------------------------------------
# settings attributes re-assigned between two fits of the same object (bg.center_extrema = 'trough',
# bg.burst_method = 'amp', bg.thresholds = {...} (a NEW dict), bg.burst_kwargs = {...}, bg.find_extrema_kwargs = {...},
# bg.return_samples = False).  A history step is either a decoy fit (dict with 'nd') or an assignment block
# {'set': [[attribute, value], ...], 'vid': id of the option set the object holds afterwards}.  The harness keeps its
# own record of the settings the user intends (never read back from the object); every fit is judged against the
# per-signal reference with the settings in force WHEN fit IS CALLED.

FEK_DEFAULT = {'filter_kwargs': {'n_cycles': 3}}
CYC_DEFAULT_THR = {'amp_fraction_threshold': 0., 'amp_consistency_threshold': .5, 'period_consistency_threshold': .5,
                   'monotonicity_threshold': .8, 'min_n_cycles': 3}
# burst options with visibly different amplitude-method tables on make_sig signals (the default thresholds (1, 2) find no burst)
BK_POOL = [{'amp_threshes': [0.8, 1.2]}, {'amp_threshes': [0.9, 1.1]}, {'amp_threshes': [0.8, 1.2], 'min_n_cycles': 2}, {}]
VID0 = 1000              # assignment blocks get the ids 1001, 1002, ... (option-set ids of the pool are < 100)


def initial_settings(mode, shared, return_samples):
    """Settings a BycycleGroup holds after construction: from option set `shared` of the pool (mode 'dict') or the
    documented defaults (mode 'none')."""
    if mode == 'none':
        return {'center_extrema': 'peak', 'burst_method': 'cycles', 'thresholds': dict(CYC_DEFAULT_THR), 'burst_kwargs': {},
                'find_extrema_kwargs': dict(FEK_DEFAULT), 'return_samples': bool(return_samples)}
    kw = KW_POOL[shared]
    return {'center_extrema': kw['center_extrema'], 'burst_method': kw.get('burst_method', 'cycles'),
            'thresholds': dict(kw['threshold_kwargs']), 'burst_kwargs': {},
            'find_extrema_kwargs': dict(kw['find_extrema_kwargs']) if kw.get('find_extrema_kwargs') else dict(FEK_DEFAULT),
            'return_samples': bool(return_samples)}


def gen_reassign(rng, cur, vid):
    """One assignment block from the settings `cur`: the values of another option set of the pool are assigned to ALL
    settings attributes, or to a random non-empty subset of those that differ (a change of burst_method always comes
    with matching thresholds, so that every fit is a valid call); sometimes burst_kwargs (amplitude method) and
    return_samples as well.  Returns (step, new settings)."""
    tgt = None
    whole = rng.random() < 0.35
    for _try in range(30):
        a = rng.randrange(len(KW_POOL))
        t = initial_settings('dict', a, cur['return_samples'])
        diff = [k for k in ('center_extrema', 'burst_method', 'thresholds', 'find_extrema_kwargs') if t[k] != cur[k]]
        if not diff:
            continue
        if not whole and t['burst_method'] != cur['burst_method'] and rng.random() < 0.6:
            continue                                   # most partial blocks keep the method
        tgt = t
        break
    if tgt is None:
        return None, cur
    if whole:
        names = ['center_extrema', 'burst_method', 'thresholds', 'find_extrema_kwargs', 'burst_kwargs']
    else:
        names = [k for k in diff if rng.random() < 0.5] or [rng.choice(diff)]
        if tgt['burst_method'] != cur['burst_method'] and ('burst_method' in names or 'thresholds' in names):
            names = sorted(set(names) | {'burst_method', 'thresholds'})
    new = dict(cur)
    for k in names:
        new[k] = tgt[k]
    if new['burst_method'] == 'amp' and rng.random() < 0.5:
        new['burst_kwargs'] = dict(rng.choice(BK_POOL))
        names = list(names) + ['burst_kwargs']
    elif new['burst_method'] != 'amp':
        new['burst_kwargs'] = {}
        if cur['burst_kwargs']:
            names = list(names) + ['burst_kwargs']
    if rng.random() < 0.2:
        new['return_samples'] = not cur['return_samples']
        names = list(names) + ['return_samples']
    names = list(dict.fromkeys(names))
    rng.shuffle(names)
    return {'set': [[k, new[k]] for k in names], 'vid': vid}, new


def gen_history(rng, shape, mode, shared, return_samples, force=False):
    """History of an object before its judged fit: decoy fits on arrays of another shape (gen_decoys) and assignment
    blocks.  Most histories with a re-assignment have it between a fit and the judged fit (a fit must not keep anything
    of the settings an earlier fit ran with); some also before the first fit, some have no earlier fit at all."""
    decoys = gen_decoys(rng, shape)
    r = rng.random()
    if not force and r < 0.35:
        return decoys                                              # re-fits only, settings as constructed
    cur = initial_settings(mode, shared, return_samples)
    out, vid = [], VID0
    if r > 0.9 and not force:
        decoys = []                                                # construct, re-assign, first fit
    if decoys and rng.random() < 0.25:
        vid += 1
        step, cur = gen_reassign(rng, cur, vid)                    # before the first fit as well
        if step:
            out.append(step)
    for q, d in enumerate(decoys):
        out.append(d)
        if q + 1 < len(decoys) and rng.random() < 0.3:
            vid += 1
            step, cur = gen_reassign(rng, cur, vid)
            if step:
                out.append(step)
    vid += 1
    step, cur = gen_reassign(rng, cur, vid)                        # between the last earlier fit and the judged fit
    if step:
        out.append(step)
    return out


def versions(c_mode, shared, return_samples, history):
    """[(id, settings)] of the option sets the object holds over the history: the constructor's first (id None: the
    caller names it SHARED_ID / NONE_ID), then one per assignment block."""
    cur = initial_settings(c_mode, shared, return_samples)
    out = [(None, cur)]
    for st in history or []:
        if 'set' in st:
            cur = dict(cur)
            for k, v in st['set']:
                cur[k] = v
            out.append((st['vid'], cur))
    return out


def current_vid(history):
    v = None
    for st in history or []:
        if 'set' in st:
            v = st['vid']
    return v


def n_reassign(history):
    return sum(1 for st in history or [] if 'set' in st)


def n_decoys(history):
    return sum(1 for st in history or [] if 'nd' in st)


def _value(k, v, krng):
    """Fresh Python value for an attribute assignment (a NEW dict every time; amp_threshes as a tuple)."""
    if k == 'burst_kwargs':
        return shuffled(krng, {a: (tuple(b) if a == 'amp_threshes' else b) for a, b in v.items()})
    if k == 'find_extrema_kwargs':
        return {a: (dict(b) if isinstance(b, dict) else b) for a, b in v.items()}
    if k == 'thresholds':
        return shuffled(krng, v)
    return v


def settings_kwargs(st):
    """Keyword arguments of compute_features for settings st (without return_samples): what a user of the functional
    API passes for them."""
    return {'center_extrema': st['center_extrema'], 'burst_method': st['burst_method'],
            'burst_kwargs': _value('burst_kwargs', st['burst_kwargs'], None),
            'threshold_kwargs': dict(st['thresholds']),
            'find_extrema_kwargs': _value('find_extrema_kwargs', st['find_extrema_kwargs'], None)}


def run_history(bg, history, krng=None):
    """Earlier life of the object: fit it on every decoy array (undelayed workers, no progress bar) and assign the
    attributes of every assignment block."""
    for d in history or []:
        if 'set' in d:
            for k, v in d['set']:
                setattr(bg, k, _value(k, v, krng))
            continue
        n = d['n0'] * (d['n1'] or 1)
        sigs = np.array([make_sig(d['first_sig'] + q) for q in range(n)])
        if d['nd'] == 3:
            sigs = sigs.reshape(d['n0'], d['n1'], -1)
        bg.fit(sigs, FS, FR, axis=(0 if d['nd'] == 2 else AX3[d['ax']]), n_jobs=d['n_jobs'])


def history_term(k0, history, judged):
    """Coq input of the object stream: (constructor option-set id, [HFit decoy | HSet vid ...; HFit judged])."""
    steps = [('(HSet %d%%nat)' % st['vid']) if 'set' in st else '(HFit %s)' % decoy_term(st) for st in history or []]
    return '(%d%%nat, %s)' % (k0, coqio.lst(steps + ['(HFit %s)' % judged]))


def history_note(history):
    """Words for an oracle message."""
    nd, ns = n_decoys(history), n_reassign(history)
    if not nd and not ns:
        return ''
    parts = []
    if nd:
        parts.append('%d earlier fit(s) of the same object on arrays of another shape' % nd)
    if ns:
        last = [st for st in history if 'set' in st][-1]
        parts.append('%d re-assignment(s) of settings attributes (last: %s)' % (ns, ', '.join(k for k, _ in last['set'])))
    return ' after ' + ' and '.join(parts)


def observe_object(bg, sigs, cands, want):
    """What a user sees on the group object after the judged fit.  sigs: the judged array (2-D or 3-D); cands: candidate
    tables; want: expected placement triples, nested like the array's first dimensions (2-D: one flat list).
    Returns a JSON-able dict: len(bg), the shape of bg.models, per model the placement triple of the table it holds and
    the row-major index of the judged signal it holds (MISSING when it holds neither), and whether bg[i] / bg[i][j] and
    iteration give the models of bg.models."""
    three = sigs.ndim == 3
    flat = sigs.reshape(-1, sigs.shape[-1])
    n1 = sigs.shape[1] if three else None
    out = {}
    try:
        out['len'] = len(bg)
    except Exception as e:
        out['len'] = 'raised ' + type(e).__name__
    models = bg.models
    rows = list(models) if three else [list(models)]

    def one(m, i, j):
        pos = (i * n1 + j) if three else j
        if not hasattr(m, 'df_features') or not hasattr(m.df_features, 'columns'):
            return [[MISSING] * 3, MISSING]
        try:
            prefer = tuple(want[i][j]) if three else tuple(want[j])
        except (IndexError, TypeError):
            prefer = (MISSING,) * 3
        t = match(m.df_features, cands, prefer)
        msig = np.asarray(m.sig)
        if pos < len(flat) and np.array_equal(msig, flat[pos]):
            sid = pos
        else:
            hit = [q for q in range(len(flat)) if np.array_equal(msig, flat[q])]
            sid = hit[0] if hit else MISSING
        return [t, sid]
    obs = []
    for i, row in enumerate(rows):
        if not isinstance(row, list):
            obs.append([[[MISSING] * 3, MISSING]])
            continue
        obs.append([one(m, i, j) for j, m in enumerate(row)])
    out['models'] = obs
    out['models_shape'] = [len(rows), [len(r) if isinstance(r, list) else -1 for r in rows]] if three else [len(rows[0])]

    def same_model(a, b):
        if a is b:
            return True
        try:
            return same_table(a.df_features, b.df_features) and np.array_equal(np.asarray(a.sig), np.asarray(b.sig))
        except Exception:
            return False
    try:
        if three:
            out['getitem_ok'] = all(same_model(bg[i][j], models[i][j]) for i in range(len(models)) for j in range(len(models[i])))
            it = list(bg)
            out['iter_ok'] = len(it) == len(models) and all(len(a) == len(b) and all(same_model(x, y) for x, y in zip(a, b))
                                                             for a, b in zip(it, models))
        else:
            out['getitem_ok'] = all(same_model(bg[i], models[i]) for i in range(len(models)))
            it = list(bg)
            out['iter_ok'] = len(it) == len(models) and all(same_model(x, y) for x, y in zip(it, models))
    except Exception as e:
        out['getitem_ok'] = out['iter_ok'] = False
        out['access_error'] = type(e).__name__
    return out


def object_problem(obj, shape, want):
    """Statement oracle for the object after the judged fit: len / models have the array's first dimensions, every model
    holds the analysis of its own signal and that signal.  want nested like the array (2-D: flat list of triples)."""
    three = len(shape) == 2
    n0 = shape[0]
    if obj['len'] != n0:
        return 'len(group object) is %s, but the fitted array has %d rows' % (obj['len'], n0)
    if three:
        if obj['models_shape'][0] != n0 or any(x != shape[1] for x in obj['models_shape'][1]):
            return 'models has shape %s, but the fitted array has first dimensions %s' % (obj['models_shape'], list(shape))
    elif obj['models_shape'] != [n0]:
        return 'models has %d entries, but the fitted array has %d rows' % (obj['models_shape'][0], n0)
    rows = want if three else [want]
    for i, row in enumerate(rows):
        for j, w in enumerate(row):
            t, sid = obj['models'][i][j]
            pos = (i * shape[1] + j) if three else j
            where = '[%d][%d]' % (i, j) if three else '[%d]' % j
            if list(t) != list(w):
                return 'models%s holds the table (options, slice/signal, epoch) = %s, expected %s' % (where, t, list(w))
            if sid != pos:
                return 'models%s holds signal %s of the fitted array, expected its own (%d)' % (
                    where, 'none' if sid == MISSING else sid, pos)
    if not obj.get('getitem_ok'):
        return 'indexing the group object does not give the model of that position'
    if not obj.get('iter_ok'):
        return 'iterating the group object does not give the models position by position'
    return None


def coq_models(obs):
    rows = [coqio.lst(['((%d, %d, %d)%%nat, %d%%nat)' % (t[0], t[1], t[2], sid) for t, sid in row]) if row else 'nil' for row in obs]
    return coqio.lst(rows) if rows else 'nil'


def make_sig(k, n=220):
    t = np.arange(n)
    rng = np.random.default_rng(1000 + k)
    return np.sin(2 * np.pi * t / (17 + (k % 5)) + 0.7 * k) * (1 + 0.3 * np.sin(2 * np.pi * t / (61 + 3 * k))) \
        + 0.1 * rng.standard_normal(n) + 0.01 * k


_DELAYS = {}
_TASKS = {}          # first sample of a task's array -> submission index
_LOG = [None]        # path of the completion log of the current call (inherited by forked workers)
STATS = {'calls_logged': 0, 'log_is_permutation': 0, 'observed_reordered': 0, 'observed_equals_intended_schedule': 0,
         'perturbed_schedule_calls': 0, 'perturbed_and_observed_reordered': 0}


def _key(sig):
    return float(np.asarray(sig).ravel()[0])


def delayed_cf(sig, *a, **k):
    """Stand-in for bycycle.group.features.compute_features inside workers: sleeps, then delegates,
    then appends the task's key to the completion log (one short O_APPEND write per task)."""
    from bycycle.features import compute_features as real
    key = _key(sig)
    d = _DELAYS.get(key, 0.0)
    if d:
        time.sleep(d)
    try:
        return real(sig, *a, **k)
    finally:
        path = _LOG[0]
        if path is not None:
            try:
                fd = os.open(path, os.O_WRONLY | os.O_APPEND)
                try:
                    os.write(fd, (repr(key) + '\n').encode())
                finally:
                    os.close(fd)
            except OSError:
                pass


def install_delays(sigs_flat_first, schedule):
    """sigs_flat_first: list of the arrays whose first sample identifies a pool task, in submission order."""
    import bycycle.group.features as gf
    _DELAYS.clear()
    _TASKS.clear()
    _LOG[0] = None
    n = len(sigs_flat_first)
    for i, s in enumerate(sigs_flat_first):
        if schedule == 'reverse':
            d = 0.012 * (n - i)
        elif schedule == 'first_slow':
            d = 0.05 if i == 0 else 0.0
        elif schedule == 'zigzag':
            d = 0.03 if i % 2 == 0 else 0.0
        else:
            d = 0.0
        _DELAYS[_key(s)] = d
        _TASKS[_key(s)] = i
    if not hasattr(gf, 'compute_features'):
        return None
    try:
        fd, path = tempfile.mkstemp(prefix='verif_group_', suffix='.log')
        os.close(fd)
        _LOG[0] = path
    except OSError:
        _LOG[0] = None
    orig = gf.compute_features
    gf.compute_features = delayed_cf
    return orig


def uninstall(orig, schedule=None):
    """Restore the worker function; return the OBSERVED completion order (submission indices in the order the
    workers finished) or None when it could not be observed (internal name gone, log unreadable)."""
    import bycycle.group.features as gf
    if orig is not None:
        gf.compute_features = orig
    path, _LOG[0] = _LOG[0], None
    if path is None:
        return None
    order = None
    try:
        with open(path) as f:
            order = [_TASKS.get(float(line), -1) for line in f.read().split()]
    except (OSError, ValueError):
        order = None
    try:
        os.unlink(path)
    except OSError:
        pass
    if order is not None:
        n = len(_TASKS)
        STATS['calls_logged'] += 1
        perm = sorted(order) == list(range(n))
        STATS['log_is_permutation'] += perm
        reordered = perm and order != list(range(n))
        STATS['observed_reordered'] += reordered
        if schedule is not None:
            STATS['observed_equals_intended_schedule'] += (order == sigma_of(schedule, n))
            if schedule != 'none' and n >= 2:
                STATS['perturbed_schedule_calls'] += 1
                STATS['perturbed_and_observed_reordered'] += reordered
    return order


def sigma_for(schedule, n, observed):
    """Completion order handed to the model: the observed one when it is a permutation of the n tasks
    (the theorem covers every permutation), else the intended one."""
    if observed is not None and sorted(observed) == list(range(n)):
        return list(observed)
    return sigma_of(schedule, n)


class ProgressStub:
    """In-process stand-in for tqdm / tqdm.notebook (neither is installed in /venv): `tqdm(iterable, ...)` yields the
    items of the iterable unchanged and records how it was used.  It offers the usual tqdm surface (iteration,
    len, update, close, context manager, set_description, refresh, write) so that a rewrite of the caller that uses the
    bar differently still runs."""

    def __init__(self):
        self.saved = {}
        self.record = {'calls': 0, 'module': None, 'total': None, 'pulled': 0, 'updated': 0}

    def _cls(self, modname):
        rec = self.record

        class tqdm(object):
            def __init__(self, iterable=None, desc=None, total=None, *a, **k):
                rec['calls'] += 1
                rec['module'] = modname
                rec['total'] = total if (total is None or isinstance(total, (int, float))) else str(total)
                self.iterable = iterable
                self.total = total
                self.desc = desc
                self.n = 0

            def __iter__(self):
                for x in self.iterable:
                    rec['pulled'] += 1
                    self.n += 1
                    yield x

            def __len__(self):
                if self.total is not None:
                    return int(self.total)
                return len(self.iterable)

            def __enter__(self):
                return self

            def __exit__(self, *exc):
                return False

            def update(self, n=1):
                rec['updated'] += n
                self.n += n

            def close(self):
                pass

            def refresh(self, *a, **k):
                pass

            def reset(self, total=None):
                self.n = 0

            def set_description(self, desc=None, refresh=True):
                self.desc = desc

            set_description_str = set_description

            def set_postfix(self, *a, **k):
                pass

            @staticmethod
            def write(s, *a, **k):
                pass

        return tqdm

    def install(self):
        for name in ('tqdm', 'tqdm.notebook', 'tqdm.auto'):
            self.saved[name] = sys.modules.get(name, None)
        top = types.ModuleType('tqdm')
        top.tqdm = self._cls('tqdm')
        top.trange = lambda *a, **k: top.tqdm(range(*a), **k)
        top.__path__ = []
        for sub in ('notebook', 'auto'):
            m = types.ModuleType('tqdm.' + sub)
            m.tqdm = self._cls('tqdm.' + sub)
            m.trange = (lambda mm: (lambda *a, **k: mm.tqdm(range(*a), **k)))(m)
            setattr(top, sub, m)
            sys.modules['tqdm.' + sub] = m
        sys.modules['tqdm'] = top
        return self

    def uninstall(self):
        for name, old in self.saved.items():
            if old is None:
                sys.modules.pop(name, None)
            else:
                sys.modules[name] = old
        self.saved = {}
        return dict(self.record)


def sigma_of(schedule, n):
    if schedule == 'reverse':
        return list(range(n - 1, -1, -1))
    if schedule == 'first_slow':
        return list(range(1, n)) + [0]
    if schedule == 'zigzag':
        return [i for i in range(n) if i % 2 == 1] + [i for i in range(n) if i % 2 == 0]
    return list(range(n))


def same_table(a, b):
    if list(a.columns) != list(b.columns) or len(a) != len(b):
        return False
    for col in a.columns:
        x, y = np.asarray(a[col]), np.asarray(b[col])
        if x.dtype.kind == 'f' or y.dtype.kind == 'f':
            if not np.array_equal(x.astype(float), y.astype(float), equal_nan=True):
                return False
        elif not np.array_equal(x, y):
            return False
    return True


def match(df, cands, prefer):
    """cands: dict triple -> table. Return the matching triple (prefer the expected one when several match)."""
    hits = [k for k, t in cands.items() if same_table(df, t)]
    if not hits:
        return [MISSING, MISSING, MISSING]
    if tuple(prefer) in hits:
        return list(prefer)
    return list(hits[0])


def explain(df, cands, prefer):
    """Words for a returned table that equals NO candidate: how it differs from the expected one (column set first)."""
    t = cands.get(tuple(prefer))
    if t is None or not hasattr(df, 'columns'):
        return 'equals no per-signal reference table'
    a, b = list(df.columns), list(t.columns)
    if a != b:
        extra, missing = [x for x in a if x not in b], [x for x in b if x not in a]
        if extra or missing:
            return ('its columns differ from the reference computed with the same return_samples: %d extra %s, %d missing %s'
                    % (len(extra), extra[:4], len(missing), missing[:4]))
        return 'its columns are those of the reference in another order'
    if len(df) != len(t):
        return 'it has %d rows, the reference %d' % (len(df), len(t))
    for col in a:
        if not same_table(df[[col]], t[[col]]):
            return 'column %r differs from the reference' % col
    return 'differs from the reference'


def coq_triples(m):
    return coqio.lst([coqio.lst(['(%d, %d, %d)%%nat' % tuple(t) for t in row]) if row else 'nil' for row in m]) if m else 'nil'


def nat_list(xs):
    return coqio.lst([str(int(x)) for x in xs], 'nat') if len(xs) else '(@nil nat)'


def relayout(arr, layout):
    """Same values, different memory layout: C-ordered, Fortran-ordered, or a transposed view."""
    if layout == 'F':
        return np.asfortranarray(arr)
    if layout == 'view':
        axes = tuple(range(arr.ndim))[::-1]
        return np.ascontiguousarray(arr.transpose(axes)).transpose(axes)
    return arr
