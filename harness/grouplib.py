"""Shared driver for the group functions (C11, C12): real pools, perturbed completion order,
placement observed by matching every returned table against directly computed candidates."""
import time
import numpy as np
from harness import coqio
from harness.core import exc_kind

COQ_HEADER = ('From Coq Require Import List Arith NArith. Import ListNotations.\n'
              'From ByC Require Import Base.Result Harness.Compare Model.Group.')
COQ_RUNNER = 'bad_group'
COQ_TYPES = ('gcase', 'list (list (nat * nat * nat))')
SHARD = 400
FS, FR = 100, (3, 8)
MISSING = 777

# option sets with pairwise different effect on the table (centre and labels differ)
KW_POOL = [
    {'center_extrema': 'peak', 'threshold_kwargs': {'amp_fraction_threshold': 0, 'amp_consistency_threshold': 0,
                                                     'period_consistency_threshold': 0, 'monotonicity_threshold': 0, 'min_n_cycles': 1}},
    {'center_extrema': 'trough', 'threshold_kwargs': {'amp_fraction_threshold': 0, 'amp_consistency_threshold': 0,
                                                       'period_consistency_threshold': 0, 'monotonicity_threshold': 0, 'min_n_cycles': 1}},
    {'center_extrema': 'peak', 'threshold_kwargs': {'monotonicity_threshold': 1.0, 'min_n_cycles': 1}},
    {'center_extrema': 'trough', 'threshold_kwargs': {'monotonicity_threshold': 1.0, 'min_n_cycles': 1}},
    {'center_extrema': 'peak', 'burst_method': 'amp', 'threshold_kwargs': {'burst_fraction_threshold': 0.1, 'min_n_cycles': 1}},
    {'center_extrema': 'trough', 'burst_method': 'amp', 'threshold_kwargs': {'burst_fraction_threshold': 0.1, 'min_n_cycles': 1}},
    {'center_extrema': 'peak', 'find_extrema_kwargs': {'boundary': 25},
     'threshold_kwargs': {'amp_fraction_threshold': 0, 'amp_consistency_threshold': 0,
                          'period_consistency_threshold': 0, 'monotonicity_threshold': 0, 'min_n_cycles': 1}},
    {'center_extrema': 'trough', 'find_extrema_kwargs': {'boundary': 25},
     'threshold_kwargs': {'amp_fraction_threshold': 0, 'amp_consistency_threshold': 0,
                          'period_consistency_threshold': 0, 'monotonicity_threshold': 0, 'min_n_cycles': 1}},
    {'center_extrema': 'peak', 'find_extrema_kwargs': {'boundary': 40},
     'threshold_kwargs': {'monotonicity_threshold': 1.0, 'min_n_cycles': 1}},
]
SHARED_ID = 999


def make_sig(k, n=220):
    t = np.arange(n)
    rng = np.random.default_rng(1000 + k)
    return np.sin(2 * np.pi * t / (17 + (k % 5)) + 0.7 * k) * (1 + 0.3 * np.sin(2 * np.pi * t / (61 + 3 * k))) \
        + 0.1 * rng.standard_normal(n) + 0.01 * k


_DELAYS = {}


def _key(sig):
    return float(np.asarray(sig).ravel()[0])


def delayed_cf(sig, *a, **k):
    """Stand-in for bycycle.group.features.compute_features inside workers: sleeps, then delegates."""
    from bycycle.features import compute_features as real
    d = _DELAYS.get(_key(sig), 0.0)
    if d:
        time.sleep(d)
    return real(sig, *a, **k)


def install_delays(sigs_flat_first, schedule):
    """sigs_flat_first: list of the arrays whose first sample identifies a pool task, in submission order."""
    import bycycle.group.features as gf
    _DELAYS.clear()
    n = len(sigs_flat_first)
    for i, s in enumerate(sigs_flat_first):
        if schedule == 'reverse':
            d = 0.012 * (n - i)
        elif schedule == 'first_slow':
            d = 0.05 if i == 0 else 0.0
        elif schedule == 'zigzag':
            d = 0.03 if i % 2 == 0 else 0.0
        else:
            d = 0.0
        _DELAYS[_key(s)] = d
    if not hasattr(gf, 'compute_features'):
        return None
    orig = gf.compute_features
    gf.compute_features = delayed_cf
    return orig


def uninstall(orig):
    import bycycle.group.features as gf
    if orig is not None:
        gf.compute_features = orig


def sigma_of(schedule, n):
    if schedule == 'reverse':
        return list(range(n - 1, -1, -1))
    if schedule == 'first_slow':
        return list(range(1, n)) + [0]
    if schedule == 'zigzag':
        return [i for i in range(n) if i % 2 == 1] + [i for i in range(n) if i % 2 == 0]
    return list(range(n))


def same_table(a, b):
    if list(a.columns) != list(b.columns) or len(a) != len(b):
        return False
    for col in a.columns:
        x, y = np.asarray(a[col]), np.asarray(b[col])
        if x.dtype.kind == 'f' or y.dtype.kind == 'f':
            if not np.array_equal(x.astype(float), y.astype(float), equal_nan=True):
                return False
        elif not np.array_equal(x, y):
            return False
    return True


def match(df, cands, prefer):
    """cands: dict triple -> table. Return the matching triple (prefer the expected one when several match)."""
    hits = [k for k, t in cands.items() if same_table(df, t)]
    if not hits:
        return [MISSING, MISSING, MISSING]
    if tuple(prefer) in hits:
        return list(prefer)
    return list(hits[0])


def coq_triples(m):
    return coqio.lst([coqio.lst(['(%d, %d, %d)%%nat' % tuple(t) for t in row]) if row else 'nil' for row in m]) if m else 'nil'


def nat_list(xs):
    return coqio.lst([str(int(x)) for x in xs], 'nat') if len(xs) else '(@nil nat)'


def relayout(arr, layout):
    """Same values, different memory layout: C-ordered, Fortran-ordered, or a transposed view."""
    if layout == 'F':
        return np.asfortranarray(arr)
    if layout == 'view':
        axes = tuple(range(arr.ndim))[::-1]
        return np.ascontiguousarray(arr.transpose(axes)).transpose(axes)
    return arr
