"""Check driver: theorems (coqc on Props/Cxx.v) + correspondence (model vs /repo) +
failing-input search + evidence.  See DESIGN.md section 1.5.

usage: python -m harness.core Cxx [--tier quick|thorough]
       python -m harness.core --replay FILE
"""
import argparse, fcntl, glob, hashlib, importlib, json, os, random, re, subprocess, sys, time
import multiprocessing as mp

from harness import coqio, translate

if hasattr(sys, 'set_int_max_str_digits'):
    sys.set_int_max_str_digits(0)      # bit masks of long recordings are written as one integer

VERIF = '/verif'
COQDIR = VERIF + '/coq'
WORK = VERIF + '/.work'
DEFAULT_SEED = 20261001

FORBIDDEN = re.compile(
    r'\b(Admitted|admit|Axiom|Axioms|Parameter|Parameters|Conjecture|Admit Obligations|'
    r'bypass_check|Unset Guard Checking|Unset Positivity Checking|Unset Universe Checking|'
    r'native_compute)\b')

HARNESS_TRUST = [
    'Coq 8.16.1 kernel + vm_compute (no native_compute)',
    'harness: float->hex literal printing, case-file writer, strict report parser (harness/coqio.py)',
    'harness: exception-class mapping and output canonicalisation (harness/props/*.py)',
    'reference oracles call neurodsp/numpy only, never bycycle (harness/ref.py)',
    'numpy / pandas / scipy / neurodsp / matplotlib semantics as written into the model',
]


def canon_hash(obj):
    return hashlib.sha256(json.dumps(obj, sort_keys=True, default=str).encode()).hexdigest()[:16]


def exc_kind(e):
    if isinstance(e, ValueError):
        return 'Value'
    if isinstance(e, IndexError):
        return 'Index'
    if isinstance(e, KeyError):
        return 'Key'
    if isinstance(e, TypeError):
        return 'Type'
    if isinstance(e, AssertionError):
        return 'Assert'
    if isinstance(e, StopIteration):
        return 'Stop'
    return 'Other:' + type(e).__name__


# ----------------------------------------------------------------------------------------
# Coq library build and theorem check

def build_library():
    """Incremental full .vo build of the model/proof library (no-op when up to date)."""
    os.makedirs(WORK, exist_ok=True)
    with open(WORK + '/build.lock', 'w') as lk:
        fcntl.flock(lk, fcntl.LOCK_EX)
        if not os.path.exists(COQDIR + '/Makefile'):
            subprocess.run(['coq_makefile', '-f', '_CoqProject', '-o', 'Makefile'], cwd=COQDIR,
                           capture_output=True)
        p = subprocess.run(['timeout', '3000', 'make', '-j16'], cwd=COQDIR, capture_output=True, text=True)
        return p.returncode, (p.stdout + p.stderr)[-3000:]


def hygiene():
    """Fail closed on anything that declares an axiom or switches off a kernel check."""
    hits = []
    for path in glob.glob(COQDIR + '/theories/**/*.v', recursive=True) + glob.glob(COQDIR + '/gen/*.v'):
        txt = open(path).read()
        txt = re.sub(r'\(\*.*?\*\)', '', txt, flags=re.S)
        for m in FORBIDDEN.finditer(txt):
            hits.append('%s: %s' % (os.path.relpath(path, COQDIR), m.group(0)))
    return hits


def run_coqchk(props_file):
    """Independent re-check of the compiled theorem file and everything it depends on (thorough tier)."""
    modname = 'ByC.' + props_file[:-2].replace('/', '.')
    t0 = time.time()
    try:
        p = subprocess.run(['timeout', '3000', 'coqchk', '-o', '-silent', '-Q', COQDIR + '/theories', 'ByC', modname],
                           capture_output=True, text=True, cwd=COQDIR)
        out = p.stdout + p.stderr
        rc = p.returncode
    except Exception as e:
        out, rc = str(e), 99
    axioms = []
    if '* Axioms:' in out:
        sec = out.split('* Axioms:')[1].split('\n* ')[0]
        axioms = [l.strip() for l in sec.splitlines() if l.strip() and l.strip() != '<none>']
    return {'rc': rc, 'module': modname, 'axioms': axioms, 'wall_s': round(time.time() - t0, 1), 'tail': out[-600:] if rc != 0 else ''}


def check_theorems(prop, props_file):
    """Re-compile Props/Cxx.v; return (obligations, discharged, axioms, log)."""
    src = open(os.path.join(COQDIR, 'theories', props_file)).read()
    src_nc = re.sub(r'\(\*.*?\*\)', '', src, flags=re.S)
    names = re.findall(r'^\s*(?:Theorem|Corollary)\s+(\w+)', src_nc, flags=re.M)
    printed = re.findall(r'^\s*Print Assumptions\s+(\w+)\s*\.', src_nc, flags=re.M)
    wd = os.path.join(WORK, prop)
    os.makedirs(wd, exist_ok=True)
    p = subprocess.run(['timeout', '900', 'coqc'] + coqio.COQFLAGS +
                       ['-o', os.path.join(wd, os.path.basename(props_file) + 'o'), os.path.join(COQDIR, 'theories', props_file)],
                       capture_output=True, text=True, cwd=wd)
    out = p.stdout
    blocks = re.findall(r'(Closed under the global context|Axioms:)', out)
    axioms = sorted(set(re.findall(r'^([A-Za-z_][\w\.\']*)\s*:', out, flags=re.M)))
    ok = (p.returncode == 0 and set(names) <= set(printed))
    discharged = len(blocks) if p.returncode == 0 else 0
    discharged = min(discharged, len(names))
    return {'obligations': len(names), 'discharged': discharged, 'axioms': axioms, 'ok': ok,
            'rc': p.returncode, 'stderr': p.stderr[-3000:], 'names': names}


# ----------------------------------------------------------------------------------------
# Running the implementation

_MOD = None


def _impl_worker(case):
    try:
        return _MOD.run_impl(case)
    except BaseException as e:  # harness-level failure inside a property driver
        return {'harness_error': '%s: %s' % (type(e).__name__, e)}


def _impl_chunk(chunk):
    return [_impl_worker(c) for c in chunk]


def _init_worker():
    os.setpgrp()          # own process group: a stuck worker is killed together with the pools it forked


class _CaseTimeout(BaseException):
    pass


def _alarm(signum, frame):
    raise _CaseTimeout()


def _run_with_alarm(case, seconds):
    import signal
    old = signal.signal(signal.SIGALRM, _alarm)
    signal.alarm(seconds)
    try:
        return _MOD.run_impl(case)
    except _CaseTimeout:
        for ch in mp.active_children():       # whatever the stuck call forked
            try:
                ch.kill()
            except Exception:
                pass
        return {'harness_timeout': 'no result within %d s (run alone in the main process)' % seconds}
    except BaseException as e:
        return {'harness_error': '%s: %s' % (type(e).__name__, e)}
    finally:
        signal.alarm(0)
        signal.signal(signal.SIGALRM, old)


STALL_S = int(os.environ.get('VERIF_STALL_S', '150'))      # no chunk finished for this long = workers are stuck
CASE_S = int(os.environ.get('VERIF_CASE_S', '120'))


def unusable(o):
    """Outcome the harness could not obtain (driver crashed, or the run did not come back in time)."""
    return isinstance(o, dict) and ('harness_error' in o or 'harness_timeout' in o)


def run_impl_all(mod, cases):
    """Run the implementation on all cases in forked workers. Watchdog: the library's own process pools can
    dead-lock when one of their workers is killed (e.g. by the OOM killer under load); if no chunk completes for
    STALL_S seconds the workers (and everything they forked) are killed and the unfinished cases are re-run one
    by one in this process under a per-case alarm. A case that still does not return is recorded as
    `harness_timeout` (counted in the evidence, no verdict): none of the properties is about termination."""
    global _MOD
    _MOD = mod
    if not (getattr(mod, 'PARALLEL', True) and len(cases) > 32):
        return [_run_with_alarm(c, STALL_S) for c in cases]
    import signal
    from concurrent.futures import ProcessPoolExecutor, wait, FIRST_COMPLETED
    ctx = mp.get_context('fork')
    cs = max(1, len(cases) // 64)
    chunks = [(i, cases[i:i + cs]) for i in range(0, len(cases), cs)]
    outs = [None] * len(cases)
    pool = ProcessPoolExecutor(max_workers=min(16, os.cpu_count() or 4), mp_context=ctx, initializer=_init_worker)
    stalled = False
    try:
        futs = {pool.submit(_impl_chunk, ch): i for i, ch in chunks}
        pending = set(futs)
        while pending:
            done, pending = wait(pending, timeout=STALL_S, return_when=FIRST_COMPLETED)
            if not done:
                stalled = True
                break
            for f in done:
                try:
                    res = f.result()
                except BaseException:
                    continue            # broken pool: re-run below
                i = futs[f]
                outs[i:i + len(res)] = res
    finally:
        if stalled:
            for pr in list(getattr(pool, '_processes', {}).values()):
                try:
                    os.killpg(pr.pid, signal.SIGKILL)
                except Exception:
                    try:
                        pr.kill()
                    except Exception:
                        pass
        try:
            pool.shutdown(wait=not stalled, cancel_futures=True)
        except Exception:
            pass
    missing = [i for i, o in enumerate(outs) if o is None]
    if missing:
        sys.stderr.write('watchdog: %d case(s) did not come back from the workers; re-running them one by one\n' % len(missing))
        for i in missing:
            outs[i] = _run_with_alarm(cases[i], CASE_S)
    return outs


# ----------------------------------------------------------------------------------------
# Known findings

def load_known(prop):
    out = []
    path = VERIF + '/known_findings.txt'
    if not os.path.exists(path):
        return out
    for line in open(path):
        line = line.strip()
        m = re.match(r'finding:\s+property=(\w+)\s+match=(\{.*?\})\s+(.*)$', line)
        if m and m.group(1) == prop:
            out.append((json.loads(m.group(2)), m.group(3)))
    return out


def matches_known(known, case, msg=''):
    """A listed finding matches a failing case when every plain key of its JSON match equals the case's field and,
    if the match has the key "what~", that string occurs in the failure message - so that a DIFFERENT failure on
    the same input class is still reported."""
    for match, text in known:
        if all(case.get(k) == v for k, v in match.items() if k != 'what~') and match.get('what~', '') in (msg or ''):
            return text
    return None


# ----------------------------------------------------------------------------------------

def coq_eval(mod, prop, cases, outs, tag='cases', shard=None):
    """Evaluate the model on the cases and compare with implementation outputs."""
    streams = {}
    skipped = 0
    enc_errors = []
    for i, (c, o) in enumerate(zip(cases, outs)):
        try:
            t = mod.coq_case(c, o)
        except Exception as e:     # an output that cannot be written as a model case: reported, never a crash of the check
            enc_errors.append('case %d could not be encoded for the model: %s: %s' % (i, type(e).__name__, e))
            continue
        if t is None:
            skipped += 1
            continue
        name = mod.stream_of(c) if hasattr(mod, 'stream_of') else 'main'
        streams.setdefault(name, []).append((i, t[0], t[1]))
    n, bad, errors = 0, [], list(enc_errors[:3])
    for name, triples in streams.items():
        if hasattr(mod, 'COQ_STREAMS'):
            header, runner, ctype, shd = mod.COQ_STREAMS[name]
        else:
            header, runner, ctype, shd = mod.COQ_HEADER, mod.COQ_RUNNER, getattr(mod, 'COQ_TYPES', None), getattr(mod, 'SHARD', 400)
        n1, bad1, err1 = coqio.eval_shards(os.path.join(WORK, prop), header, runner, triples,
                                          shard=shard or shd, tag=tag + '_' + name, ctype=ctype)
        n += n1
        bad.extend(bad1)
        errors.extend(err1)
    return n, bad, errors, skipped


def shrink(mod, prop, case, kind):
    """Greedy shrinking while the failure (oracle failure or model mismatch) persists."""
    if not hasattr(mod, 'shrink'):
        return case
    cur = case
    for _ in range(40):
        cands = list(mod.shrink(cur))[:200]
        if not cands:
            break
        outs = [_impl_worker(c) for c in cands] if _MOD else []
        nxt = None
        if kind == 'oracle':
            for c, o in zip(cands, outs):
                if not unusable(o) and mod.oracle(c, o):
                    nxt = c
                    break
        else:
            n, bad, errors, _ = coq_eval(mod, prop, cands, outs, tag='shrink')
            if bad and not errors:
                nxt = cands[min(bad)]
        if nxt is None:
            break
        cur = nxt
    return cur


def write_replay(prop, payload):
    os.makedirs(VERIF + '/replays', exist_ok=True)
    path = '%s/replays/%s-%s.json' % (VERIF, prop, canon_hash(payload))
    with open(path, 'w') as f:
        json.dump(payload, f, indent=1, default=str)
    return path


def run_check(prop, tier, seed):
    t0 = time.time()
    mod = importlib.import_module('harness.props.' + prop.lower())
    global _MOD
    _MOD = mod
    rng = random.Random(seed)
    violations = []       # (replay_path, suffix)
    known_lines = []
    known = load_known(prop)
    ev_extra = {}

    # 1. theorems ------------------------------------------------------------------------
    rc, blog = build_library()
    hy = hygiene()
    th = check_theorems(prop, mod.PROPS_FILE) if rc == 0 else \
        {'obligations': 0, 'discharged': 0, 'axioms': [], 'ok': False, 'rc': rc, 'stderr': blog, 'names': []}
    # 1b. functions whose source text is translated to Gallina on this run and proved equal to the model
    if rc == 0 and prop in translate.TARGETS:
        tg = translate.check(prop, os.path.join(WORK, prop), tier)
        th['obligations'] += tg['obligations']
        th['discharged'] += tg['discharged']
        th['names'] = th['names'] + ['translated:' + n for n in tg['names']]
        th['axioms'] = sorted(set(th['axioms']) | set(tg['axioms']))
        ev_extra['translated_functions'] = tg['functions']
        if not tg['ok']:
            th['ok'] = False
            th['stderr'] = (th.get('stderr') or '') + '\ntranslated source no longer proved equal to the model: ' + tg['log']
    proof_broken = (rc != 0) or (not th['ok']) or bool(hy) or th['discharged'] < th['obligations']
    if tier == 'thorough' and not proof_broken:
        ck = run_coqchk(mod.PROPS_FILE)
        ev_extra['coqchk'] = ck
        if ck['rc'] != 0:
            proof_broken = True
            th['stderr'] = (th.get('stderr') or '') + '\ncoqchk: ' + ck.get('tail', '')

    # 2. implementation on corpus + generated inputs ------------------------------------------
    cases = []
    for path in sorted(glob.glob('%s/corpus/%s/*.json' % (VERIF, prop))):
        try:
            cases.append(json.load(open(path))['case'])
        except Exception:
            pass
    n_corpus = len(cases)
    cases.extend(mod.cases(rng, tier))
    t_impl = time.time()
    outs = run_impl_all(mod, cases)
    ev_extra['impl_wall_s'] = round(time.time() - t_impl, 2)

    herr = [(i, o['harness_error']) for i, o in enumerate(outs) if isinstance(o, dict) and 'harness_error' in o]
    oracle_fail = []
    for i, (c, o) in enumerate(zip(cases, outs)):
        if unusable(o):
            continue
        try:
            msg = mod.oracle(c, o)
        except Exception as e:     # an output the oracle cannot read is a departure in itself, never a crash of the check
            herr.append((i, 'statement oracle could not read the output of this case: %s: %s' % (type(e).__name__, e)))
            continue
        if msg:
            oracle_fail.append((i, msg))

    # 3. model vs implementation -------------------------------------------------------------
    ok_idx = [i for i, o in enumerate(outs) if not unusable(o)]
    n_timeouts = sum(1 for o in outs if isinstance(o, dict) and 'harness_timeout' in o)
    if n_timeouts:
        ev_extra['harness_timeouts'] = n_timeouts
    sub_cases = [cases[i] for i in ok_idx]
    sub_outs = [outs[i] for i in ok_idx]
    t_coq = time.time()
    n_eval, bad, cerrors, skipped = coq_eval(mod, prop, sub_cases, sub_outs)
    ev_extra['coq_eval_wall_s'] = round(time.time() - t_coq, 2)
    mismatches = sorted(set(ok_idx[b] for b in bad))

    # 4. report ----------------------------------------------------------------------------------
    def report(i, kind, msg):
        c = cases[i]
        ktxt = matches_known(known, c, msg)
        if ktxt:
            line = 'KNOWN-FINDING: property=%s %s' % (prop, ktxt)
            if line not in known_lines:
                known_lines.append(line)
            return
        small = shrink(mod, prop, c, kind)
        o = _impl_worker(small)
        payload = {'property': prop, 'kind': kind, 'what': msg, 'case': small, 'observed': o,
                   'original_case_hash': canon_hash(c),
                   'broken': ('statement oracle (property fails on the implementation)' if kind == 'oracle'
                              else 'correspondence model<->implementation: %s via %s' % (getattr(mod, 'COQ_RUNNER', 'model runners'), mod.PROPS_FILE)),
                   'replay': './check --replay <this file>'}
        path = write_replay(prop, payload)
        violations.append((path, '' if kind == 'oracle' else ' no-failing-input-found'))

    seen_msgs = set()
    for i, msg in oracle_fail[:2000]:
        key = msg.split(':')[0]
        if key in seen_msgs and len(violations) >= 3:
            continue
        seen_msgs.add(key)
        report(i, 'oracle', msg)
        if len(violations) >= 5:
            break
    of_set = set(i for i, _ in oracle_fail)
    only_mis = [i for i in mismatches if i not in of_set]
    if only_mis and not any(s == '' for _, s in violations):
        # correspondence broken but no property-level failing input found
        for i in only_mis[:1]:
            report(i, 'mismatch', 'model and implementation disagree on this input')
    elif only_mis:
        ev_extra['mismatches_beside_oracle_failures'] = len(only_mis)
    if herr:
        payload = {'property': prop, 'kind': 'harness_error', 'what': herr[0][1], 'case': cases[herr[0][0]],
                   'broken': 'harness could not run the implementation on this input'}
        violations.append((write_replay(prop, payload), ' no-failing-input-found'))
    if cerrors:
        payload = {'property': prop, 'kind': 'coq_error', 'what': 'case file did not evaluate', 'detail': cerrors[:3],
                   'broken': 'correspondence evaluation (%s)' % getattr(mod, 'COQ_RUNNER', 'model runners')}
        violations.append((write_replay(prop, payload), ' no-failing-input-found'))
    if proof_broken:
        payload = {'property': prop, 'kind': 'proof', 'broken': 'theorem file %s no longer checks' % mod.PROPS_FILE,
                   'what': {'make_rc': rc, 'coqc_rc': th['rc'], 'stderr': th['stderr'], 'hygiene': hy,
                            'obligations': th['obligations'], 'discharged': th['discharged']}}
        if not any(s == '' for _, s in violations):
            violations.append((write_replay(prop, payload), ' no-failing-input-found'))

    # 5. evidence -------------------------------------------------------------------------------
    nontriv = set()
    dist = {}
    for c, o in zip(cases, outs):
        if unusable(o):
            continue
        k = mod.kind_of(c, o) if hasattr(mod, 'kind_of') else c.get('kind', 'case')
        dist[k] = dist.get(k, 0) + 1
        if mod.nontrivial(c, o):
            nontriv.add(canon_hash(c))
    samples = [{'case': cases[i], 'observed': outs[i]} for i in
               sorted(set([n_corpus, n_corpus + 1, len(cases) // 2, len(cases) - 1]) & set(range(len(cases))))][:4]
    samples = json.loads(json.dumps(samples, default=str))
    for s in samples:
        s_txt = json.dumps(s)
        if len(s_txt) > 4000:
            s.clear()
            s['truncated'] = s_txt[:4000]
    coverage = {
        'obligations': max(th['obligations'], 0), 'discharged': th['discharged'],
        'checker_cmd': 'coqc -Q coq/theories ByC coq/theories/%s (after make in coq/); axioms read from Print Assumptions' % mod.PROPS_FILE,
        'trusted_base': ['axiom: ' + a for a in th['axioms']] + HARNESS_TRUST + list(getattr(mod, 'TRUST', [])),
        'theorems': th['names'],
        'evaluations': len(cases), 'distinct_nontrivial': len(nontriv),
        'rule': mod.RULE, 'samples': samples,
        'model_vs_impl_evaluated_in_coq': n_eval, 'model_vs_impl_skipped': skipped,
        'model_vs_impl_mismatches': len(mismatches), 'oracle_failures': len(oracle_fail),
        'corpus_cases': n_corpus, 'input_distribution': dist,
        'exhaustive': bool(getattr(mod, 'EXHAUSTIVE', {}).get(tier, False)),
    }
    coverage.update(ev_extra)
    if hasattr(mod, 'extra_evidence'):
        coverage.update(mod.extra_evidence())
    ev = {'property_id': prop, 'tier': tier, 'seed': seed, 'level': 'proof', 'coverage': coverage,
          'assumptions': list(getattr(mod, 'ASSUMPTIONS', [])), 'wall_s': round(time.time() - t0, 2),
          'violations': len(violations)}
    os.makedirs(VERIF + '/evidence', exist_ok=True)
    with open('%s/evidence/%s.json' % (VERIF, prop), 'w') as f:
        json.dump(ev, f, indent=1)

    for line in known_lines:
        print(line)
    for path, suffix in violations:
        print('VIOLATION property=%s replay=%s%s' % (prop, path, suffix))
    print('%s %s: theorems %d/%d, %d cases (%d non-trivial), %d evaluated in Coq, %d mismatches, %d oracle failures%s, %.1fs'
          % (prop, tier, th['discharged'], th['obligations'], len(cases), len(nontriv), n_eval, len(mismatches),
             len(oracle_fail), (', %d timed out' % ev_extra['harness_timeouts']) if ev_extra.get('harness_timeouts') else '',
             time.time() - t0))
    return 1 if violations else 0


def run_replay(path):
    payload = json.load(open(path))
    prop = payload['property']
    mod = importlib.import_module('harness.props.' + prop.lower())
    global _MOD
    _MOD = mod
    if 'case' not in payload:
        print('replay: %s records a broken %s; nothing to execute' % (path, payload.get('kind')))
        print(json.dumps(payload.get('what'), indent=1)[:3000])
        return 1
    case = payload['case']
    out = _impl_worker(case)
    msg = None if unusable(out) else mod.oracle(case, out)
    build_library()
    n, bad, errors, skipped = coq_eval(mod, prop, [case], [out], tag='replay')
    print('replay %s: observed=%s' % (path, json.dumps(out, default=str)[:1500]))
    print('  statement oracle: %s' % (msg or 'holds'))
    print('  model vs implementation: %s' % ('DISAGREE' if bad else ('error' if errors else ('agree' if n else 'not evaluated'))))
    if msg or bad or errors or 'harness_error' in out:
        print('VIOLATION property=%s replay=%s' % (prop, path))
        return 1
    return 0


def main():
    ap = argparse.ArgumentParser()
    ap.add_argument('prop', nargs='?')
    ap.add_argument('--tier', default=os.environ.get('VERIF_TIER', 'quick'))
    ap.add_argument('--replay')
    a = ap.parse_args()
    if a.replay:
        sys.exit(run_replay(a.replay))
    seed = int(os.environ.get('VERIF_SEED', DEFAULT_SEED))
    tier = a.tier if a.tier in ('quick', 'thorough') else 'quick'
    sys.exit(run_check(a.prop, tier, seed))


if __name__ == '__main__':
    main()
